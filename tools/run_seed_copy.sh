#!/bin/bash
# run_seed_copy.sh <seed-dir> <property-id> [tier] : like run_seed.sh but on a
# scratch copy of /repo (VERIF_REPO), so that concurrent checks on /repo are not disturbed.
S=$1; P=$2; T=${3:-quick}
R=/tmp/repo_seed_$$
cp -a /repo $R
cd /verif
git -C $R apply $S/patch.diff || { echo "APPLY FAILED $S"; rm -rf $R; exit 2; }
VERIF_REPO=$R VERIF_EVIDENCE=/tmp/evid_$$ python3 check.py $P $T > /tmp/seedrun_$$.txt 2>&1
rc=$?
echo "seed=$(basename $S) property=$P tier=$T exit=$rc $(grep -c '^VIOLATION' /tmp/seedrun_$$.txt) violation-lines"
grep -E '^(VIOLATION|ERROR)' /tmp/seedrun_$$.txt | cut -c1-260 | head -4
rm -rf $R /tmp/evid_$$ /tmp/seedrun_$$.txt
