#!/bin/bash
# run_seed.sh <seed-dir> <property-id> [tier] : apply the seeded change to /repo, run the check, undo it.
S=$1; P=$2; T=${3:-quick}
cd /verif
git -C /repo apply $S/patch.diff || { echo "APPLY FAILED $S"; exit 2; }
python3 check.py $P $T > /tmp/seedrun.txt 2>&1
rc=$?
git -C /repo checkout -- .
git -C /repo status --short | grep -v '^??' | head -3
echo "seed=$(basename $S) property=$P tier=$T exit=$rc $(grep -c '^VIOLATION' /tmp/seedrun.txt) violation-lines"
grep -E '^(VIOLATION|ERROR)' /tmp/seedrun.txt | cut -c1-260 | head -4
