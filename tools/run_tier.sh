#!/bin/bash
# run_tier.sh <tier> [ids...] : run the checks of a tier one after the other and print one summary line each.
T=${1:-quick}; shift
IDS=${@:-C01 C02 C03 C04 C05 C06 C07 C08 C09 C10 C11 C12 C13 C14 C15 C16 C17 C18 C19 C20}
cd "$(dirname "$0")/.."
for id in $IDS; do
  s=$(date +%s)
  timeout 5400 python3 check.py $id $T > /tmp/tier_$id.txt 2>&1
  rc=$?
  echo "$id tier=$T exit=$rc secs=$(( $(date +%s) - s )) known=$(grep -c KNOWN-FINDING /tmp/tier_$id.txt) :: $(grep -v KNOWN-FINDING /tmp/tier_$id.txt | cut -c1-300 | head -3 | tr '\n' ' ')"
done
