#!/bin/bash
# collect_seed.sh <worktree> <seed-name> <property> : copy an agent's seeded change into seeded/<seed-name>,
# confirm it in a scratch worktree, run the property's quick check against it on a repo copy.
W=$1; N=$2; P=$3
cd /verif
d=seeded/$N; mkdir -p $d
cp $W/mutant.diff $d/patch.diff; cp $W/MUTANT_NOTES.md $d/NOTES.md
t=$(ls $W/slog/zz_demo_test.go $W/slog/internal/*/zz_demo_test.go 2>/dev/null | head -1)
[ -z "$t" ] && t=$(git -C $W status --short | grep '_test.go' | awk '{print $2}' | head -1 | sed "s#^#$W/#")
cp $t $d/demo_test.go
bash tools/confirm_seed.sh /verif/$d 2>&1 | tail -1 | sed 's/tests_mod.*demo_without/demo_without/'
bash tools/run_seed_copy.sh /verif/$d $P quick
