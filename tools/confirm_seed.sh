#!/bin/bash
# confirm_seed.sh <seed-dir> : confirm in a scratch worktree that the seeded change
# compiles, passes the existing suite, and that the demonstration fails with it
# and passes without it. Prints a JSON-ish summary line.
set -u
S=$1
W=/tmp/confirm_$$
git -C /repo worktree add -q $W HEAD || exit 2
pkgdir=$(grep -m1 '^+++ b/' $S/patch.diff | sed 's#+++ b/##' | xargs dirname)
demo_pkg=slog
head -3 $S/demo_test.go | grep -q "package times" && demo_pkg=slog/internal/times
cp $S/demo_test.go $W/$demo_pkg/zz_demo_test.go
cd $W
base_demo=$(go test -vet=off -count=1 -run 'Demo|ZZ' ./$demo_pkg 2>&1 | tail -1)
git apply $S/patch.diff || { echo "APPLY-FAILED"; cd /; git -C /repo worktree remove --force $W; exit 2; }
build=$(go build ./... 2>&1 | tail -1)
mv $demo_pkg/zz_demo_test.go /tmp/zz_demo_$$.go
suite=$(go test -vet=off -count=1 ./... 2>&1 | grep -c "^ok")
suite_fail=$(go test -vet=off -count=1 ./... 2>&1 | grep -c "FAIL")
tests2=$( (cd tests && go test -vet=off -count=1 ./... 2>&1) | tail -1)
mv /tmp/zz_demo_$$.go $demo_pkg/zz_demo_test.go
mut_demo=$(go test -vet=off -count=1 -run 'Demo|ZZ' ./$demo_pkg 2>&1 | tail -1)
echo "seed=$S build='$build' suite_ok_pkgs=$suite suite_fail=$suite_fail tests_mod='$tests2' demo_without='$base_demo' demo_with='$mut_demo'"
cd /
git -C /repo worktree remove --force $W
