import subprocess
def commit(msg):
    r=subprocess.run("cd /repo && go build ./... && go test -vet=off -count=1 ./... 2>&1 | tail -8 && (cd tests && go test -vet=off -count=1 ./... 2>&1 | tail -2)",shell=True,capture_output=True,text=True)
    out=r.stdout+r.stderr
    if 'FAIL' in out or r.returncode!=0 or 'ok' not in out:
        print("SUITE FAILED for",msg.splitlines()[0]); print(out[-2500:]); return False
    subprocess.run(["git","-C","/repo","add","-A"]); subprocess.run(["git","-C","/repo","commit","-qm",msg])
    h=subprocess.run(["git","-C","/repo","log","--format=%h","-1"],capture_output=True,text=True).stdout.strip()
    print("committed",h,msg.splitlines()[0]); return True
def sub(path, old, new, count=1):
    s=open(path).read()
    assert s.count(old)>=1, ("not found", path, old[:60])
    s=s.replace(old,new) if count==0 else s.replace(old,new,count)
    open(path,'w').write(s)
