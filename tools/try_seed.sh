#!/bin/bash
# try_seed.sh <seed-dir> <harness> [gosym args...] : run one harness against a seeded change on a repo copy (no native replay).
S=$1; H=$2; shift 2
R=/tmp/repo_try_$$; cp -a /repo $R
git -C $R apply $S/patch.diff || { rm -rf $R; exit 2; }
timeout 900 /verif/bin/gosym -repo $R -fn $H "$@" > /tmp/try_$$.json 2>&1
python3 - /tmp/try_$$.json <<'PY'
import json,sys
try: d=json.load(open(sys.argv[1]))
except Exception as e: print(open(sys.argv[1]).read()[:1500]); sys.exit()
print("paths",d['paths'],"covers",d['covers'],"errs",str(d['engine_errors'])[:400])
seen=set()
for v in d['violations'] or []:
    if v['label'] in seen: continue
    seen.add(v['label']); print('   VIOL',v['label'][:110],'|',v['known'])
PY
rm -rf $R /tmp/try_$$.json
