#!/usr/bin/env python3
"""crosscheck.py <qlog.smt2> [max]  - re-submit the deciding queries logged by
gosym (-qlog: every query answered unsat, which prunes a branch or discharges
an assertion, and every assertion query) to other solver builds and compare
the verdicts. Any disagreement is a machinery error (DESIGN.md 2.2)."""
import subprocess, sys

def solvers():
    return [("cvc5", ["cvc5", "--incremental", "--lang=smt2", "--tlimit-per=20000"], "(set-logic ALL)\n"),
            ("z3-new", ["z3-new", "-in", "-t:20000"], "")]

def run(qlog, maxq):
    qs = open(qlog).read().split(";;QUERY ")[1:]
    if maxq and len(qs) > maxq:
        step = len(qs) / maxq
        qs = [qs[int(i * step)] for i in range(maxq)]
    stats = {"queries": len(qs), "disagreements": 0, "unknown": 0, "by_solver": {}}
    for name, argv, pre in solvers():
        p = subprocess.Popen(argv, stdin=subprocess.PIPE, stdout=subprocess.PIPE, stderr=subprocess.STDOUT, text=True)
        p.stdin.write(pre)
        agree = 0
        for q in qs:
            head, body = q.split("\n", 1)
            expect = head.split("expect=")[1].strip()
            p.stdin.write("(push 1)\n" + body + "(check-sat)\n(pop 1)\n")
            p.stdin.flush()
            ans = ""
            while True:
                line = p.stdout.readline()
                if not line:
                    break
                line = line.strip()
                if line in ("sat", "unsat", "unknown", "timeout") or line.startswith("(error"):
                    ans = line
                    break
            if ans in ("unknown", "timeout", "") or ans.startswith("(error"):
                stats["unknown"] += 1
            elif ans != expect and expect in ("sat", "unsat"):
                stats["disagreements"] += 1
                print("DISAGREEMENT %s says %s, engine's solver said %s" % (name, ans, expect))
            else:
                agree += 1
        p.kill()
        stats["by_solver"][name] = agree
    return stats

if __name__ == "__main__":
    st = run(sys.argv[1], int(sys.argv[2]) if len(sys.argv) > 2 else 0)
    print(st)
    sys.exit(2 if st["disagreements"] else 0)
