#!/bin/bash
# run_revseeds.sh : run every seeded change (seeded/*/patch.diff + meta.json) against a
# private copy of the repository ($VP_RUN_REPO or $1) and report which check detects it.
R=${VP_RUN_REPO:-$1}
[ -d "$R" ] || { echo "need a repo copy"; exit 2; }
cd "$(dirname "$0")/.."
for d in seeded/*/; do
  name=$(basename $d)
  p=$(python3 -c "import json;print(json.load(open('$d/meta.json'))['property'])")
  # seeds whose own property's check does not see them are run against the check that does
  case $name in C16-agent|C08-agent|C05-agent2|C06-agent3|C13-agent3|C18-agent3) p=C09;; C09-agent3) p=C08;; C14-agent3) p=C10;; C17-agent6) p=C06;; esac
  (cd $R && git apply $OLDPWD/$d/patch.diff) || { echo "$name APPLY-FAILED"; continue; }
  VERIF_REPO=$R VERIF_EVIDENCE=/tmp/rs_evid python3 check.py $p quick > /tmp/rs_$name.txt 2>&1
  rc=$?
  (cd $R && git apply -R $OLDPWD/$d/patch.diff)
  echo "$name property=$p exit=$rc violations=$(grep -c '^VIOLATION' /tmp/rs_$name.txt) $(grep -m1 '^VIOLATION' /tmp/rs_$name.txt | cut -c1-160)"
done
