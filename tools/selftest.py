#!/usr/bin/env python3
"""selftest.py [ids...] - encoder validation (Serval-style, DESIGN.md 2.4).

For every sample path recorded in evidence/<id>.json (the concrete model of a
path the symbolic run explored) the harness is run twice on exactly those
intrinsic values: (a) by the engine in concrete replay mode, (b) natively,
compiled from /repo's working tree. Everything the harness observed - each
payload handed to a recording writer, each failed assertion, a panic - must
agree (timestamps and the directory part of source paths normalised). A
difference is an engine/stub bug: it blocks trust in every verdict and is
reported as a machinery error. This validates the translator; it is not the
deciding step of any property.
"""
import glob, json, os, re, subprocess, sys
ROOT = os.path.dirname(os.path.dirname(os.path.abspath(__file__)))
sys.path.insert(0, ROOT)
import check  # noqa
from checks import CHECKS

def norm(line):
    if line.startswith("VPANIC"):
        return "VPANIC"
    # timestamps: the engine's clock stub and the host clock differ; C16 stubs the formatter itself
    line = re.sub(r'T<.{8,80}?>[^#]*#', 'T', line)
    line = re.sub(r'(\\x1b\[32m)[^|]*\|', r'\1T|', line)
    line = re.sub(r'time=\\"[^"]*\\"', 'time=T', line)
    line = re.sub(r'\\"time\\":\\"[^"]*\\"', 'time:T', line)
    line = re.sub(r'\d\d:\d\d:\d\d\.\d{6}(Z|[+-]\d\d:\d\d)', 'T', line)
    line = re.sub(r'[./\w-]*/(zz_verif_\w+\.go)', r'\1', line)
    line = re.sub(r'0x[0-9a-f]+', '0xADDR', line)
    # random logger names (6 characters): the engine's stub hands out fresh names rnd001.., the host random ones
    line = re.sub(r'(\\"logger\\":\\")[^\\"]{6}(\\")', r'\1RNDNAM\2', line)
    line = re.sub(r'(logger=\\")[^\\"]{6}(\\")', r'\1RNDNAM\2', line)
    line = re.sub(r'(\\x1b\[37m)[^\\ ]{6}(\\x1b\[0m)', r'\1RNDNAM\2', line)
    return line

def main():
    ids = sys.argv[1:] or sorted(CHECKS)
    exe = check.build_engine()
    bad = total = 0
    replayers = {}
    for pid in ids:
        evf = os.path.join(ROOT, "evidence", pid + ".json")
        if not os.path.exists(evf):
            continue
        ev = json.load(open(evf))
        runs = {r["harness"]: r for r in ev["coverage"]["runs"]}
        pkgs = {r["harness"]: r.get("pkg", "slog") for r in CHECKS[pid]["runs"]}
        for k, smp in enumerate(ev["coverage"]["samples"]):
            if "inputs" not in smp:
                continue
            h = smp["harness"]
            pkg = pkgs.get(h, "slog")
            rp = os.path.join(ROOT, "bin", "selftest-%s-%d.json" % (pid, k))
            json.dump({"harness": h, "label": "", "params": smp.get("params", runs[h]["params"]), "items": smp["inputs"]}, open(rp, "w"))
            if pkg not in replayers:
                replayers[pkg] = check.build_replayer(pkg, "selftest-" + os.path.basename(pkg))
            a = check.sh([exe, "-repo", check.REPO, "-pkg", "./" + pkg, "-harness", os.path.join(ROOT, "harness"),
                          "-replay", rp], env=check.GOENV).stdout
            b = check.sh([replayers[pkg], rp], cwd="/tmp", env=dict(os.environ, HOME="/nonexistent-home")).stdout
            la = [norm(l) for l in a.splitlines() if l.startswith(("VOUT", "VFAIL", "VPANIC", "VDONE", "VENGINE"))]
            lb = [norm(l) for l in b.splitlines() if l.startswith(("VOUT", "VFAIL", "VPANIC", "VDONE"))]
            total += 1
            if la != lb:
                bad += 1
                print("SELFTEST MISMATCH %s %s sample %d\n  engine: %s\n  native: %s" % (pid, h, k, la[:6], lb[:6]))
            os.remove(rp)
    print("selftest: %d samples compared, %d mismatches" % (total, bad))
    sys.exit(2 if bad else 0)

if __name__ == "__main__":
    main()
