#!/usr/bin/env python3
"""time_thorough.py [ids...] : run every thorough-tier engine run of the given
properties separately under a time cap and report paths / wall time, to
validate (or shrink) the registered thorough bounds. Writes nothing under
evidence/."""
import json, os, subprocess, sys, time
ROOT = os.path.dirname(os.path.dirname(os.path.abspath(__file__)))
sys.path.insert(0, ROOT)
from checks import CHECKS
CAP = int(os.environ.get("CAP", "1800"))
ids = sys.argv[1:] or sorted(CHECKS)
for pid in ids:
    for n, run in enumerate(CHECKS[pid]["runs"]):
        params = dict(run.get("params", {})); params.update(run.get("thorough", {}))
        if os.environ.get("ONLY_DIFF") and not run.get("thorough_only") and run.get("thorough", {}) == run.get("quick", {}):
            continue  # same bounds as the quick tier: validated by the quick pass
        out = "/tmp/tt-%s-%d.json" % (pid, n)
        cmd = ["timeout", str(CAP), os.path.join(ROOT, "bin", "gosym"), "-repo", os.environ.get("VERIF_REPO", "/repo"),
               "-pkg", "./" + run.get("pkg", "slog"), "-harness", os.path.join(ROOT, "harness"), "-fn", run["harness"],
               "-out", out, "-timeout", str(run.get("timeout_ms", 60000)),
               "-params", ",".join("%s=%d" % kv for kv in sorted(params.items()))] + run.get("args", [])
        t = time.time()
        r = subprocess.run(cmd, stdout=subprocess.PIPE, stderr=subprocess.STDOUT, text=True)
        w = time.time() - t
        line = "%s run%d %s(%s) rc=%d wall=%.0fs" % (pid, n, run["harness"], params, r.returncode, w)
        if os.path.exists(out):
            d = json.load(open(out)); os.remove(out)
            line += " paths=%d viol=%d inconcl=%s errs=%s unwind=%d" % (d["paths"], len(d.get("violations") or []), d.get("inconclusive"),
                     len(d.get("engine_errors") or []), len(d.get("unwind") or []))
        print(line, flush=True)
