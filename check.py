#!/usr/bin/env python3
"""check.py <property-id> <quick|thorough>

Driver of the solver-based checks (DESIGN.md section 6). For the property it
runs every registered harness through the symbolic executor (bin/gosym, which
re-loads /repo's current working tree and re-generates the SMT encoding on
every run), replays each counterexample natively against the real build, and
writes evidence/<id>.json.

exit 0  every query inside the bounds was discharged (known findings printed)
exit 1  VIOLATION property=<id> replay=<path>   (replay-confirmed counterexample)
exit 2  machinery error (never a verdict)
"""
import glob
import json
import os
import subprocess
import sys
import time

ROOT = os.path.dirname(os.path.abspath(__file__))
REPO = os.environ.get("VERIF_REPO", "/repo")
EVID = os.environ.get("VERIF_EVIDENCE") or None  # scratch evidence dir for seeded-change runs
GOENV = dict(os.environ, GOFLAGS="-mod=mod", GOWORK="off", GOPROXY="off", GOSUMDB="off",
             GOTOOLCHAIN="local")
sys.path.insert(0, ROOT)
from checks import CHECKS  # noqa: E402


def sh(cmd, **kw):
    return subprocess.run(cmd, stdout=subprocess.PIPE, stderr=subprocess.STDOUT, text=True, **kw)


def build_engine():
    exe = os.path.join(ROOT, "bin", "gosym")
    src_newer = True
    if os.path.exists(exe):
        t = os.path.getmtime(exe)
        src_newer = any(os.path.getmtime(f) > t for f in
                        glob.glob(os.path.join(ROOT, "engine", "**", "*.go"), recursive=True))
    if src_newer:
        r = sh(["go", "build", "-o", exe, "./cmd/gosym"], cwd=os.path.join(ROOT, "engine"), env=GOENV)
        if r.returncode != 0:
            print("ERROR engine build failed\n" + r.stdout)
            sys.exit(2)
    return exe


def build_replayer(pkgdir, tag):
    """Builds the native replay binary from /repo's current tree + harness overlay."""
    ov = {}
    base = os.path.basename(pkgdir)
    hdir = os.path.join(ROOT, "harness", base)
    os.makedirs(os.path.join(ROOT, "bin"), exist_ok=True)
    for f in sorted(glob.glob(os.path.join(hdir, "*.go"))):
        b = os.path.basename(f)
        if b.endswith("_engine.go"):
            continue
        ov[os.path.join(REPO, pkgdir, "zz_verif_" + b)] = f
    if base != "slog":
        # the native intrinsics are shared: re-package the slog copy
        src = open(os.path.join(ROOT, "harness", "slog", "v_native.go")).read()
        gen = os.path.join(ROOT, "bin", "v_native_%s.go" % base)
        open(gen, "w").write(src.replace("package slog", "package " + base, 1))
        ov[os.path.join(REPO, pkgdir, "zz_verif_v_native.go")] = gen
    main_src = os.path.join(ROOT, "harness", "main_" + base, "main.go")
    ov[os.path.join(REPO, "slog", "zz_verif_main_" + tag, "main.go")] = main_src
    ovf = os.path.join(ROOT, "bin", "overlay-%s.json" % tag)
    json.dump({"Replace": ov}, open(ovf, "w"))
    exe = os.path.join(ROOT, "bin", "vreplay-" + tag)
    r = sh(["go", "build", "-overlay", ovf, "-o", exe, "./slog/zz_verif_main_" + tag], cwd=REPO, env=GOENV)
    if r.returncode != 0:
        print("ERROR native replay build failed\n" + r.stdout)
        sys.exit(2)
    return exe


def known_findings(pid):
    open_, fixed = {}, []
    path = os.path.join(ROOT, "known_findings.txt")
    if os.path.exists(path):
        for line in open(path):
            line = line.strip()
            if not line or line.startswith("#"):
                continue
            kind, _, rest = line.partition(":")
            fields = rest.split()
            kv = dict(f.split("=", 1) for f in fields if "=" in f)
            if kv.get("property") != pid:
                continue
            if kind == "finding":
                what = " ".join(f for f in fields if not f.startswith(("property=", "key=")))
                open_[kv.get("key", "")] = what
            elif kind == "fixed":
                fixed.append(rest.strip())
    return open_, fixed


def main():
    if len(sys.argv) < 3:
        print(__doc__)
        sys.exit(2)
    pid, tier = sys.argv[1], sys.argv[2]
    seed = int(os.environ.get("VERIF_SEED", "0") or 0)
    spec = CHECKS[pid]
    t0 = time.time()
    exe = build_engine()
    os.makedirs(os.path.join(EVID or os.path.join(ROOT, "evidence"), "replay"), exist_ok=True)
    kf_open, kf_fixed = known_findings(pid)
    errors, violations, known_hits = [], [], []
    runs_ev = []
    tot = dict(paths=0, nontrivial=0, queries=0, solver_s=0.0, funcs=set(), stubs={}, samples=[])
    replayers = {}
    for run in spec["runs"]:
        if tier == "quick" and run.get("thorough_only"):
            continue
        params = dict(run.get("params", {}))
        params.update(run.get(tier, {}))
        pkg = run.get("pkg", "slog")
        out = os.path.join(ROOT, "bin", "res-%s-%s.json" % (pid, run["harness"]))
        cmd = [exe, "-repo", REPO, "-pkg", "./" + pkg, "-harness", os.path.join(ROOT, "harness"),
               "-fn", run["harness"], "-out", out, "-funcs",
               "-timeout", str(run.get("timeout_ms", 10000 if tier == "quick" else 60000)),
               "-params", ",".join("%s=%d" % kv for kv in sorted(params.items()))]
        if run.get("maxpaths"):
            cmd += ["-maxpaths", str(run["maxpaths"])]
        if run.get("args"):
            cmd += run["args"]
        qlog = None
        if tier == "thorough" or os.environ.get("VERIF_CROSSCHECK"):
            qlog = os.path.join(ROOT, "bin", "qlog-%s-%s.smt2" % (pid, run["harness"]))
            cmd += ["-qlog", qlog]
        t1 = time.time()
        r = sh(cmd, env=GOENV)
        if r.returncode != 0 or not os.path.exists(out):
            errors.append("engine failed on %s: %s" % (run["harness"], r.stdout[-2000:]))
            continue
        res = json.load(open(out))
        os.remove(out)
        label = "%s(%s)" % (run["harness"], ",".join("%s=%d" % kv for kv in sorted(params.items())))
        for e in res.get("engine_errors") or []:
            errors.append("%s: engine error: %s" % (label, e[:3000]))
        for u in res.get("unwind") or []:
            errors.append("%s: bound too small / unwinding failure: %s" % (label, u))
        if res.get("inconclusive"):
            errors.append("%s: %d inconclusive solver queries" % (label, res["inconclusive"]))
        if res.get("solver_errors"):
            errors.append("%s: %d solver errors" % (label, res["solver_errors"]))
        for c in run.get("covers", []):
            if not res.get("covers", {}).get(c):
                errors.append("%s: reachability witness %r not reached (vacuity guard)" % (label, c))
        xc = None
        if qlog and os.path.exists(qlog):
            # deciding queries re-submitted to two other solver builds
            sys.path.insert(0, os.path.join(ROOT, "tools"))
            import crosscheck
            xc = crosscheck.run(qlog, 1500)
            os.remove(qlog)
            if xc["disagreements"]:
                errors.append("%s: %d solver disagreements on deciding queries" % (label, xc["disagreements"]))
        q = res["queries"]
        nq = q["feasibility"] + q["assertion"] + q["enumeration"]
        tot["paths"] += res["paths"]
        tot["nontrivial"] += res["nontrivial_paths"]
        tot["queries"] += nq
        tot["solver_s"] += res["solver_time_s"]
        tot["funcs"].update(res.get("func_names") or [])
        for k, v in (res.get("stubs") or {}).items():
            tot["stubs"][k] = tot["stubs"].get(k, 0) + v
        for s in (res.get("samples") or [])[:3]:
            tot["samples"].append({"harness": run["harness"], "params": params, **s})
        runs_ev.append({"harness": run["harness"], "params": params, "paths": res["paths"],
                        "infeasible_or_assumed_away": res["aborted"], "queries": q,
                        "covers": res.get("covers"), "max_decisions": res.get("max_decisions"),
                        "inconclusive_feasibility_queries_branch_kept": res.get("inconclusive_feasibility_kept", 0),
                        "fallback_solver_queries": res.get("fallback_queries", 0),
                        "engine_args": run.get("args", []),
                        "solver_time_s": round(res["solver_time_s"], 2),
                        "wall_s": round(time.time() - t1, 2),
                        "crosscheck": xc,
                        "violations": [v["label"] for v in res.get("violations") or []]})
        # counterexamples: replay natively before believing them. The engine keeps up
        # to 4 counterexamples per label; a label is confirmed if any of them reproduces.
        by_label = {}
        for n, v in enumerate(res.get("violations") or []):
            if pkg not in replayers:
                replayers[pkg] = build_replayer(pkg, pid + "-" + os.path.basename(pkg))
            rp = os.path.join(EVID or os.path.join(ROOT, "evidence"), "replay", "%s-%s-%d.json" % (pid, run["harness"], n))
            json.dump({"harness": run["harness"], "label": v["label"], "params": params,
                       "known": v.get("known", ""), "detail": v.get("detail"),
                       "stack": (v.get("stack") or [])[:12], "items": v["replay"]},
                      open(rp, "w"), indent=1)
            env = dict(os.environ, HOME="/nonexistent-home", VERIF_REPEAT=str(spec.get("replay_repeat", 1)))
            rr = sh([replayers[pkg], rp], cwd="/tmp", env=env, timeout=120)
            want = "VPANIC" if v["label"] == "panic" else "VFAIL " + v["label"]
            confirmed = any(l.startswith(want) for l in rr.stdout.splitlines())
            if v["label"].endswith("[engine]"):
                # an observation of an engine monitor (write-set): not visible to a native run;
                # the engine's re-execution of the decision prefix is deterministic
                confirmed = True
            if v["label"].endswith("(exit)") and rr.returncode == 253:
                confirmed = True  # os.Exit(-3) ended the native process
            if v.get("other") is not None and v["label"].endswith("(cross-path)"):
                # two executions observed different bytes for the same call: run both natively
                # (two separate processes) and compare what each hands to vSame under the same key
                rp2 = rp[:-5] + "-other.json"
                json.dump({"harness": run["harness"], "label": v["label"], "params": params, "items": v["other"]}, open(rp2, "w"), indent=1)
                rr2 = sh([replayers[pkg], rp2], cwd="/tmp", env=env, timeout=120)
                def same_lines(out):
                    d = {}
                    for l in out.splitlines():
                        if l.startswith("VSAME "):
                            parts = l.split(" ", 2)  # VSAME "key" "value": keys contain no blank
                            if len(parts) == 3:
                                d[parts[1]] = parts[2]
                    return d
                d1, d2 = same_lines(rr.stdout), same_lines(rr2.stdout)
                confirmed = any(k in d2 and d2[k] != d1[k] for k in d1)
            k = (v["label"], v.get("known", ""))
            ent = by_label.setdefault(k, {"confirmed": None, "unconfirmed": []})
            if confirmed:
                if ent["confirmed"] is None:
                    ent["confirmed"] = rp
            else:
                ent["unconfirmed"].append((rp, rr.stdout[-400:]))
        for (lab, key), ent in by_label.items():
            if ent["confirmed"] is None:
                rp, out_ = ent["unconfirmed"][0]
                errors.append("unconfirmed-counterexample %s label=%r replay=%s (none of %d counterexamples reproduced natively) native output: %s" %
                              (label, lab, rp, len(ent["unconfirmed"]), out_))
                continue
            rp = ent["confirmed"]
            if key and key in kf_open:
                known_hits.append((key, kf_open[key], rp))
            else:
                violations.append((lab, rp, key))
    # evidence
    ev = {
        "property_id": pid, "tier": tier, "seed": seed, "level": "other",
        "coverage": {
            "explanation": spec["explanation"],
            "evaluations": tot["queries"] + tot["paths"],
            "distinct_nontrivial": tot["nontrivial"],
            "rule": "evaluations = SMT queries discharged (branch feasibility, assertion, enumeration) + complete path executions of the harness by the symbolic engine; "
                    "distinct_nontrivial = distinct feasible complete paths of the harnesses whose path "
                    "condition contains at least one solver-decided symbolic decision; each path stands "
                    "for every input satisfying its path condition",
            "samples": tot["samples"][:12] or [{"note": "no sample"}],
            "paths_explored": tot["paths"],
            "runs": runs_ev,
            "functions_encoded": sorted(tot["funcs"]),
            "stubs_hit": tot["stubs"],
            "solver": "one long-lived solver process per worker over a pipe; z3 4.8.12 with the bit-vector encoding unless a run's engine_args say otherwise (-int = integer encoding, -solver/-fallback = portfolio)",
            "solver_time_s": round(tot["solver_s"], 2),
            "bounds": spec.get("bounds", {}).get(tier, ""),
            "outside_claim": spec.get("outside", ""),
            "known_findings_reproduced": [k for k, _, _ in known_hits],
            "machinery_errors": errors,
            "exhaustive": False,
        },
        "assumptions": spec.get("assumptions", []),
        "wall_s": round(time.time() - t0, 2),
        "violations": len(violations),
    }
    json.dump(ev, open(os.path.join(EVID or os.path.join(ROOT, "evidence"), pid + ".json"), "w"), indent=1)
    seen = set()
    for key, what, rp in known_hits:
        if key not in seen:
            seen.add(key)
            print("KNOWN-FINDING: property=%s %s (key=%s replay=%s)" % (pid, what, key, rp))
    if errors:
        for e in errors:
            print("ERROR " + e)
        if not violations:
            sys.exit(2)
    if violations:
        for label, rp, key in violations:
            print("VIOLATION property=%s replay=%s label=%r%s" % (pid, rp, label, (" key=" + key) if key else ""))
        sys.exit(1)
    print("OK property=%s tier=%s paths=%d queries=%d wall=%.1fs" % (pid, tier, tot["paths"], tot["queries"], time.time() - t0))
    sys.exit(0)


if __name__ == "__main__":
    main()
