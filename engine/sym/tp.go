package sym

import "go/types"

// mustDeref replaces x/tools/internal/mustDeref.
func mustDeref(t types.Type) types.Type {
	if p, ok := t.Underlying().(*types.Pointer); ok {
		return p.Elem()
	}
	if tp, ok := t.(*types.TypeParam); ok {
		_ = tp
	}
	panic("mustDeref: not a pointer: " + t.String())
}
