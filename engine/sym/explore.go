package sym

import (
	"fmt"
	"go/token"
	"go/types"
	"os"
	"runtime"
	"sort"
	"strings"
	"sync"
	"time"
)

// dec is one decision of a path.
//
//	'b' branch: Val 1 = condition true, 0 = false
//	'c' concretisation: Val = the chosen value
//	'e' pending enumeration: choose a feasible value outside Excl
type dec struct {
	Kind byte
	Val  uint64
	Excl []uint64
}

// Event is one value handed to the harness by a v* intrinsic (for replay).
type Event struct {
	Kind  string  // "int" "bool" "byte" "choose" "str"
	Term  *Term   // symbolic scalar (nil if concrete)
	Val   uint64  // concrete scalar
	Cells []value // for "str"
}

// Violation is a falsified assertion or an unexpected panic with a model.
type Violation struct {
	Label   string
	Detail  string
	Other   []ReplayItem // cross-path observations: the intrinsic values of the other execution
	Replay  []ReplayItem
	Stack   []string
	Decs    int
	Outputs []string
	Known   string
}

// ReplayItem is the concrete value of one intrinsic call.
type ReplayItem struct {
	Kind string `json:"k"`
	Int  uint64 `json:"i,omitempty"`
	Hex  string `json:"h,omitempty"`
}

type pathAbort struct{ reason string } // path infeasible / assumption false

// job is a decision prefix to explore; Model (optional) satisfies the path
// condition at the end of the prefix.
type job struct {
	Prefix []dec
	Model  Model
}

type pathState struct {
	tt       *termTable
	pc       []*Term
	prefix   []dec
	trail    []dec
	events   []Event
	nvar     int
	model    Model // a model of pc (may be nil = none cached)
	newJobs  []job
	jobModel Model
	viols    []Violation
	covers   map[string]bool
	notes    []string
	steps    int64
	inconcl  int // inconclusive deciding queries
	inconclFeas int // inconclusive feasibility queries (branch kept)
	unwind   string
	symDecs  int
	outputs  []string
	known    string
	forced   []int
	permuteMaps bool
	stubTimeFormat bool
	lits     map[int]bool // term id -> asserted polarity (syntactic shortcut)
}

func (ps *pathState) addPC(t *Term) {
	ps.pc = append(ps.pc, t)
	if ps.lits == nil {
		ps.lits = map[int]bool{}
	}
	if t.op == "not" {
		ps.lits[t.args[0].id] = false
	} else {
		ps.lits[t.id] = true
	}
	if t.op == "and" {
		for _, a := range t.args {
			if a.op == "not" {
				ps.lits[a.args[0].id] = false
			} else {
				ps.lits[a.id] = true
			}
		}
	}
}

// Config of an exploration.
type Config struct {
	Harness      string
	Workers      int
	SolverKind   string
	TimeoutMS    int
	MaxDecisions int   // per path (unwinding limit on symbolic decisions)
	MaxSteps     int64 // per path (instructions)
	MaxEnum      int   // values per concretisation
	MaxPaths     int
	Env          *EnvConfig
	Params       map[string]int
	Replay       []ReplayItem // non-nil: one concrete run on these intrinsic values
	IntMode      bool
	Fallback     string // second solver tried when the first answers unknown
	QueryLog     string // file to log deciding queries for cross-checking
	Verbose      bool
}

// Stats of an exploration.
type Stats struct {
	Paths, Aborted, NontrivialPaths  int
	QFeas, QAssert, QEnum, QImplicit int
	SolverTime                       time.Duration
	Inconclusive                     int
	InconclusiveFeas                 int
	ReplayOut                        []string
	FallbackQueries, FallbackDecided int
	SolverErrors                     int
	Unwind                           []string
	EngineErrors                     []string
	Covers                           map[string]int
	Violations                       []Violation
	FuncsExecuted                    map[string]int
	StubsHit                         map[string]int
	Samples                          []map[string]any
	MaxDecs                          int
	Wall                             time.Duration
	DecidingQueries                  []string
	same                             map[string]sameEntry // vSame observations, shared by all paths
}

// sameEntry: the first value observed under a vSame key and the intrinsic
// values of the execution that observed it.
type sameEntry struct {
	val    string
	replay []ReplayItem
}

// same implements vSame(key, val): every execution (path) that reaches a
// vSame call with the same key must observe the same value. Each path runs in
// a fresh interpreter with pristine package state, so this compares what the
// code under test does in two separate processes - a 2-safety check that sees
// state leaking through anything at all (package variables included).
func (i *interpreter) same(key, val string) {
	ps := i.ps()
	r, m := i.check(ps.tt.Bool(true), true, "assert")
	if r != Sat {
		i.w.mu.Lock()
		i.w.stats.Inconclusive++
		i.w.mu.Unlock()
		return
	}
	items := ps.replayOf(m)
	i.w.mu.Lock()
	if i.w.stats.same == nil {
		i.w.stats.same = map[string]sameEntry{}
	}
	e, seen := i.w.stats.same[key]
	if !seen {
		i.w.stats.same[key] = sameEntry{val, items}
	}
	i.w.mu.Unlock()
	if seen && e.val != val {
		label := "the same call gives the same bytes in every execution (cross-path)"
		for _, v := range ps.viols {
			if v.Label == label {
				return
			}
		}
		ps.viols = append(ps.viols, Violation{Label: label, Detail: fmt.Sprintf("key %q: %q here, %q in the other execution", key, val, e.val),
			Replay: items, Other: e.replay, Stack: i.stackStrings(), Decs: len(ps.trail), Known: ps.known})
	}
}

type worker struct {
	id     int
	solver *Solver
	cfg    *Config
	prog   *Program
	stats  *Stats
	mu     *sync.Mutex
	qlog   *os.File
	fallback *Solver
}

var qtrace = os.Getenv("GOSYM_QTRACE") != ""

// ---- interpreter primitives ----

func (i *interpreter) ps() *pathState {
	if i.path == nil {
		panic(engineError{"symbolic operation outside an exploration"})
	}
	return i.path
}

func (i *interpreter) check(extra *Term, wantModel bool, kind string) (SatResult, Model) {
	ps := i.ps()
	as := append(append([]*Term{}, ps.pc...), extra)
	tq := time.Now()
	res, m, script := i.w.solver.Check(as, wantModel)
	if res == Unknown && i.w.cfg.Fallback != "" {
		// portfolio: a second solver build gets the queries the first cannot decide
		if i.w.fallback == nil {
			fb, err := NewSolver(i.w.cfg.Fallback, i.w.cfg.TimeoutMS)
			if err == nil {
				fb.IntMode = i.w.cfg.IntMode
				i.w.fallback = fb
			}
		}
		if i.w.fallback != nil {
			r2, m2, _ := i.w.fallback.Check(as, wantModel)
			i.w.mu.Lock()
			i.w.stats.FallbackQueries++
			if r2 != Unknown {
				i.w.stats.FallbackDecided++
			}
			i.w.mu.Unlock()
			if r2 != Unknown {
				res, m = r2, m2
			}
		}
	}
	if qtrace {
		fmt.Fprintf(os.Stderr, "Q %s %s %v at %s\n", kind, res, time.Since(tq), i.where())
		if time.Since(tq) > 2*time.Second {
			os.WriteFile(fmt.Sprintf("/tmp/slowq-%d.smt2", time.Now().UnixNano()), []byte(script), 0o644)
		}
	}
	i.w.mu.Lock()
	switch kind {
	case "feas":
		i.w.stats.QFeas++
	case "assert":
		i.w.stats.QAssert++
	case "enum":
		i.w.stats.QEnum++
	case "implicit":
		i.w.stats.QImplicit++
	}
	if i.w.qlog != nil && (res == Unsat || kind == "assert") {
		fmt.Fprintf(i.w.qlog, ";;QUERY kind=%s expect=%s\n%s", kind, res, script)
	}
	i.w.mu.Unlock()
	return res, m
}

// evalCached evaluates t under the cached model of pc, if any.
func (ps *pathState) evalCached(t *Term) (uint64, bool) {
	if ps.model == nil {
		return 0, false
	}
	return t.Eval(ps.model, map[int]uint64{}), true
}

// zeroModelSat: does the all-zeros assignment satisfy the path condition and
// extra? A cheap witness tried before the solver is asked for one (a
// satisfying assignment found by evaluation is as good as the solver's).
func (ps *pathState) zeroModelSat(extra *Term) (ok bool) {
	defer func() {
		if recover() != nil {
			ok = false
		}
	}()
	m := Model{}
	memo := map[int]uint64{}
	for _, c := range ps.pc {
		if c.Eval(m, memo) == 0 {
			return false
		}
	}
	return extra.Eval(m, memo) != 0
}

func (ps *pathState) tooDeep(i *interpreter) {
	if len(ps.trail) >= i.w.cfg.MaxDecisions {
		ps.unwind = fmt.Sprintf("more than %d symbolic decisions on one path at %s", i.w.cfg.MaxDecisions, i.where())
		panic(pathAbort{"unwind"})
	}
}

// truth decides a (possibly symbolic) condition, forking if both outcomes
// are feasible under the path condition.
func (i *interpreter) truth(c value) bool {
	if b, ok := c.(bool); ok {
		return b
	}
	s := c.(sv)
	ps := i.ps()
	tt := ps.tt
	if pol, ok := ps.lits[s.T.id]; ok {
		return pol // already asserted on this path: no decision
	}
	if s.T.op == "not" {
		if pol, ok := ps.lits[s.T.args[0].id]; ok {
			return !pol
		}
	}
	pos := len(ps.trail)
	if pos < len(ps.prefix) {
		d := ps.prefix[pos]
		if d.Kind != 'b' {
			panic(engineError{fmt.Sprintf("replay divergence at decision %d: want branch, prefix has %c at %s", pos, d.Kind, i.where())})
		}
		ps.trail = append(ps.trail, d)
		if d.Val != 0 {
			ps.addPC(s.T)
		} else {
			ps.addPC(tt.Not(s.T))
		}
		ps.model = nil
		if len(ps.trail) == len(ps.prefix) {
			ps.model = ps.jobModel
		}
		return d.Val != 0
	}
	ps.tooDeep(i)
	ps.symDecs++
	// which side does the cached model take?
	canT, canF := false, false
	if v, ok := ps.evalCached(s.T); ok {
		if v != 0 {
			canT = true
		} else {
			canF = true
		}
	}
	var mT, mF Model
	if !canT && ps.zeroModelSat(s.T) {
		canT, mT = true, Model{}
	} else if !canF && ps.zeroModelSat(tt.Not(s.T)) {
		canF, mF = true, Model{}
	}
	zT, zF := mT != nil, mF != nil
	if zT {
		// (decided by the zero witness)
	} else if !canT {
		r, m := i.check(s.T, true, "feas")
		if r == Unknown {
			ps.inconclFeas++ // keeps the branch: sound for "holds"
		}
		canT = r != Unsat
		mT = m
	} else {
		mT = ps.model
	}
	if zF {
		// (decided by the zero witness)
	} else if !canF {
		r, m := i.check(tt.Not(s.T), true, "feas")
		if r == Unknown {
			ps.inconclFeas++
		}
		canF = r != Unsat
		mF = m
	} else {
		mF = ps.model
	}
	switch {
	case canT && canF:
		alt := append(append([]dec{}, ps.trail...), dec{Kind: 'b', Val: 0})
		ps.newJobs = append(ps.newJobs, job{alt, mF})
		ps.trail = append(ps.trail, dec{Kind: 'b', Val: 1})
		ps.addPC(s.T)
		ps.model = mT
		return true
	case canT:
		ps.trail = append(ps.trail, dec{Kind: 'b', Val: 1})
		ps.addPC(s.T)
		ps.model = mT
		return true
	case canF:
		ps.trail = append(ps.trail, dec{Kind: 'b', Val: 0})
		ps.addPC(tt.Not(s.T))
		ps.model = mF
		return false
	}
	panic(pathAbort{"infeasible path condition"})
}

// concretize returns a concrete value for v, forking over all feasible values.
func (i *interpreter) concretize(v value) value {
	s, ok := v.(sv)
	if !ok {
		return v
	}
	ps := i.ps()
	tt := ps.tt
	w, _ := kindInfo(s.K)
	pos := len(ps.trail)
	take := func(val uint64) value {
		ps.trail = append(ps.trail, dec{Kind: 'c', Val: val})
		ps.addPC(tt.Eq(s.T, tt.Const(w, val)))
		return mkConcrete(s.K, val)
	}
	var excl []uint64
	if pos < len(ps.prefix) {
		d := ps.prefix[pos]
		switch d.Kind {
		case 'c':
			ps.model = nil
			r := take(d.Val)
			if len(ps.trail) == len(ps.prefix) {
				ps.model = ps.jobModel
			}
			return r
		case 'e':
			excl = d.Excl
		default:
			panic(engineError{fmt.Sprintf("replay divergence at decision %d: want concretise, prefix has %c at %s", pos, d.Kind, i.where())})
		}
	} else {
		ps.tooDeep(i)
		ps.symDecs++
	}
	if len(excl) >= i.w.cfg.MaxEnum {
		ps.unwind = fmt.Sprintf("more than %d values for one concretisation at %s", i.w.cfg.MaxEnum, i.where())
		panic(pathAbort{"unwind"})
	}
	var val uint64
	if len(excl) == 0 {
		if m, ok := ps.evalCached(s.T); ok {
			val = m
		} else {
			r, m := i.check(tt.Bool(true), true, "enum")
			if r != Sat {
				if r == Unknown {
					ps.inconcl++
					ps.unwind = "solver unknown during concretisation at " + i.where()
				}
				panic(pathAbort{"infeasible"})
			}
			ps.model = m
			val = s.T.Eval(m, map[int]uint64{})
		}
	} else {
		var cs []*Term
		for _, e := range excl {
			cs = append(cs, tt.Not(tt.Eq(s.T, tt.Const(w, e))))
		}
		r, m := i.check(tt.And(cs...), true, "enum")
		if r == Unknown {
			ps.inconcl++
			ps.unwind = "solver unknown during concretisation at " + i.where()
			panic(pathAbort{"unknown"})
		}
		if r == Unsat {
			panic(pathAbort{"enumeration exhausted"})
		}
		val = s.T.Eval(m, map[int]uint64{})
		ps.model = m
	}
	alt := append(append([]dec{}, ps.trail...), dec{Kind: 'e', Excl: append(append([]uint64{}, excl...), val)})
	ps.newJobs = append(ps.newJobs, job{alt, nil})
	// the cached model satisfies T == val, so it stays valid
	return take(val)
}

func (i *interpreter) where() string {
	if i.cur != nil && i.cur.curInstr != nil {
		return i.cur.fn.String() + " " + i.prog.Fset.Position(i.cur.curInstr.Pos()).String()
	}
	return "?"
}

func (i *interpreter) stackStrings() []string {
	var out []string
	for fr := i.cur; fr != nil; fr = fr.caller {
		pos := ""
		if fr.curInstr != nil {
			pos = i.prog.Fset.Position(fr.curInstr.Pos()).String()
		}
		out = append(out, fr.fn.String()+" "+pos)
	}
	return out
}

// proves reports whether c holds on every model of the path condition.
func (i *interpreter) proves(c *Term) bool {
	if c.isConst() {
		return c.val != 0
	}
	r, _ := i.check(i.ps().tt.Not(c), false, "implicit")
	if r == Unknown {
		i.ps().inconcl++
	}
	return r == Unsat
}

// chooseInternal forks over 0..n-1 (not an input of the harness: not replayed).
func (i *interpreter) chooseInternal(n int) int { return i.forkN(n) }

// forkN forks the path n ways without consulting the solver (every
// alternative of a fresh selector is feasible by construction).
func (i *interpreter) forkN(n int) int {
	if n <= 1 {
		return 0
	}
	ps := i.ps()
	pos := len(ps.trail)
	if pos < len(ps.prefix) {
		d := ps.prefix[pos]
		if d.Kind != 'n' {
			panic(engineError{fmt.Sprintf("replay divergence at decision %d: want selector, prefix has %c at %s", pos, d.Kind, i.where())})
		}
		ps.trail = append(ps.trail, d)
		if len(ps.trail) == len(ps.prefix) {
			ps.model = ps.jobModel
		}
		return int(d.Val)
	}
	ps.tooDeep(i)
	ps.symDecs++
	for k := n - 1; k >= 1; k-- {
		alt := append(append([]dec{}, ps.trail...), dec{Kind: 'n', Val: uint64(k)})
		ps.newJobs = append(ps.newJobs, job{alt, ps.model})
	}
	ps.trail = append(ps.trail, dec{Kind: 'n', Val: 0})
	return 0
}

// freshVar creates a new symbolic scalar of kind k.
func (i *interpreter) freshVar(k types.BasicKind, tag string) sv {
	ps := i.ps()
	w, _ := kindInfo(k)
	name := fmt.Sprintf("%s%d_w%d", tag, ps.nvar, w)
	ps.nvar++
	return sv{ps.tt.Var(name, w), k}
}

// assume adds c to the path condition; aborts the path if infeasible.
func (i *interpreter) assume(c value) {
	if b, ok := c.(bool); ok {
		if !b {
			panic(pathAbort{"assumption false"})
		}
		return
	}
	s := c.(sv)
	ps := i.ps()
	if pol, ok := ps.lits[s.T.id]; ok {
		if pol {
			return
		}
		panic(pathAbort{"assumption infeasible"})
	}
	if v, ok := ps.evalCached(s.T); ok && v != 0 {
		ps.addPC(s.T)
		return
	}
	r, m := i.check(s.T, true, "feas")
	if r == Unsat {
		panic(pathAbort{"assumption infeasible"})
	}
	if r == Unknown {
		ps.inconcl++
	}
	ps.addPC(s.T)
	ps.model = m
}

// replayOf renders the intrinsic events under model m.
func (ps *pathState) replayOf(m Model) []ReplayItem {
	memo := map[int]uint64{}
	var out []ReplayItem
	for _, e := range ps.events {
		switch e.Kind {
		case "str":
			b := make([]byte, len(e.Cells))
			for k, c := range e.Cells {
				switch c := c.(type) {
				case uint8:
					b[k] = c
				case sv:
					b[k] = byte(c.T.Eval(m, memo))
				}
			}
			out = append(out, ReplayItem{Kind: "str", Hex: fmt.Sprintf("%x", b)})
		default:
			v := e.Val
			if e.Term != nil {
				v = e.Term.Eval(m, memo)
			}
			out = append(out, ReplayItem{Kind: e.Kind, Int: v})
		}
	}
	return out
}

// assert checks c under the path condition; records a violation if it can
// be false and continues on the side where it holds.
func (i *interpreter) assert(c value, label string) {
	ps := i.ps()
	if b, ok := c.(bool); ok {
		if b {
			return
		}
		m := ps.model
		if m == nil {
			r, mm := i.check(ps.tt.Bool(true), true, "assert")
			if r != Sat {
				if r == Unknown {
					ps.inconcl++
				}
				panic(pathAbort{"infeasible at failed assertion"})
			}
			m = mm
		}
		i.violation(label, "assertion is false on this path", m)
		if ps.known != "" {
			return // a known-finding class: keep checking the rest of the path
		}
		panic(pathAbort{"assertion failed"})
	}
	s := c.(sv)
	r, m := i.check(ps.tt.Not(s.T), true, "assert")
	switch r {
	case Sat:
		i.violation(label, "assertion can be false", m)
	case Unknown:
		ps.inconcl++
		ps.notes = append(ps.notes, "inconclusive assertion "+label)
	}
	// continue where it holds
	i.assume(c)
}

// recordEngineViolation records a violation observed by an engine monitor
// (not by a harness assertion) on the current path.
func (i *interpreter) recordEngineViolation(label, detail string) {
	ps := i.ps()
	m := ps.model
	if m == nil {
		r, mm := i.check(ps.tt.Bool(true), true, "assert")
		if r != Sat {
			return
		}
		m = mm
	}
	i.violation(label, detail, m)
}

func (i *interpreter) violation(label, detail string, m Model) {
	ps := i.ps()
	for _, v := range ps.viols {
		if v.Label == label && v.Known == ps.known {
			return
		}
	}
	ps.viols = append(ps.viols, Violation{Label: label, Detail: detail, Replay: ps.replayOf(m),
		Stack: i.stackStrings(), Decs: len(ps.trail), Outputs: append([]string{}, ps.outputs...), Known: ps.known})
}

// ---- exploration driver ----

type jobQueue struct {
	mu      sync.Mutex
	cond    *sync.Cond
	jobs    []job
	active  int
	stopped bool
}

func (q *jobQueue) push(js []job) {
	q.mu.Lock()
	q.jobs = append(q.jobs, js...)
	q.mu.Unlock()
	q.cond.Broadcast()
}

func (q *jobQueue) pop() (job, bool) {
	q.mu.Lock()
	defer q.mu.Unlock()
	for {
		if q.stopped {
			return job{}, false
		}
		if n := len(q.jobs); n > 0 {
			j := q.jobs[n-1]
			q.jobs = q.jobs[:n-1]
			q.active++
			return j, true
		}
		if q.active == 0 {
			q.cond.Broadcast()
			return job{}, false
		}
		q.cond.Wait()
	}
}

func (q *jobQueue) done() {
	q.mu.Lock()
	q.active--
	q.mu.Unlock()
	q.cond.Broadcast()
}

// Explore runs the harness over all feasible paths.
func Explore(p *Program, cfg Config) (*Stats, error) {
	if cfg.Workers <= 0 {
		cfg.Workers = runtime.NumCPU()
	}
	if cfg.SolverKind == "" {
		cfg.SolverKind = "z3"
	}
	if cfg.TimeoutMS == 0 {
		cfg.TimeoutMS = 10000
	}
	if cfg.MaxDecisions == 0 {
		cfg.MaxDecisions = 2000
	}
	if cfg.MaxSteps == 0 {
		cfg.MaxSteps = 50_000_000
	}
	if cfg.MaxEnum == 0 {
		cfg.MaxEnum = 300
	}
	fn := p.Main.Func(cfg.Harness)
	if fn == nil {
		return nil, fmt.Errorf("no harness function %s in %s", cfg.Harness, p.Main.Pkg.Path())
	}
	p.BuildBase()
	st := &Stats{Covers: map[string]int{}, FuncsExecuted: map[string]int{}, StubsHit: map[string]int{}}
	var mu sync.Mutex
	q := &jobQueue{}
	q.cond = sync.NewCond(&q.mu)
	q.jobs = []job{{}}
	var qlog *os.File
	if cfg.QueryLog != "" {
		f, err := os.Create(cfg.QueryLog)
		if err != nil {
			return nil, err
		}
		qlog = f
		defer f.Close()
	}
	t0 := time.Now()
	var wg sync.WaitGroup
	var firstErr error
	for k := 0; k < cfg.Workers; k++ {
		s, err := NewSolver(cfg.SolverKind, cfg.TimeoutMS)
		if err != nil {
			return nil, err
		}
		s.IntMode = cfg.IntMode
		w := &worker{id: k, solver: s, cfg: &cfg, prog: p, stats: st, mu: &mu, qlog: qlog}
		wg.Add(1)
		go func() {
			defer wg.Done()
			defer w.solver.Close()
			defer func() { w.fallback.Close() }()
			for {
				job, ok := q.pop()
				if !ok {
					return
				}
				nj := w.runPath(fn, job)
				mu.Lock()
				stop := cfg.MaxPaths > 0 && st.Paths+st.Aborted >= cfg.MaxPaths
				if len(st.EngineErrors) > 0 {
					stop = true
				}
				mu.Unlock()
				if stop {
					q.mu.Lock()
					q.stopped = true
					q.mu.Unlock()
					q.cond.Broadcast()
				} else {
					q.push(nj)
				}
				q.done()
			}
		}()
	}
	wg.Wait()
	st.Wall = time.Since(t0)
	if cfg.MaxPaths > 0 && st.Paths+st.Aborted >= cfg.MaxPaths {
		st.Unwind = append(st.Unwind, fmt.Sprintf("path limit %d reached", cfg.MaxPaths))
	}
	return st, firstErr
}

// runPath executes the harness once along the decision prefix.
func (w *worker) runPath(fn *ssaFunc, jb job) (newJobs []job) {
	prefix := jb.Prefix
	i := NewInterp(w.prog)
	if w.cfg.Env != nil {
		i.env = *w.cfg.Env
		i.setupEnv()
	}
	i.w = w
	ps := &pathState{tt: newTermTable(), prefix: prefix, covers: map[string]bool{}, jobModel: jb.Model}
	i.path = ps
	if w.cfg.Replay != nil {
		i.replay = &replayState{items: w.cfg.Replay}
	}
	ps.tt.i = i
	i.maxSteps = w.cfg.MaxSteps
	completed := false
	var engErr string
	q0, t0 := w.solver.Queries, w.solver.Time
	func() {
		defer func() {
			r := recover()
			if r == nil {
				return
			}
			switch r := r.(type) {
			case pathAbort:
				_ = r
			case exitPanic:
				// os.Exit not intercepted by the harness: the path ends here
				completed = true
			case targetPanic:
				// unrecovered target panic: a violation unless the harness expects it
				m := ps.model
				if m == nil {
					res, mm := i.check(ps.tt.Bool(true), true, "assert")
					if res == Sat {
						m = mm
					}
				}
				if m != nil {
					i.violation("panic", "unrecovered panic: "+toString(r.v), m)
				} else {
					ps.inconcl++
				}
				completed = true
			case engineError:
				engErr = r.msg + " at " + i.where() + "\n" + strings.Join(i.stackStrings(), "\n")
			default:
				buf := make([]byte, 1<<14)
				n := runtime.Stack(buf, false)
				engErr = fmt.Sprintf("engine panic: %v at %s\n%s\n%s", r, i.where(), strings.Join(i.stackStrings(), "\n"), buf[:n])
			}
		}()
		tInit := time.Now()
		call(i, nil, token.NoPos, w.prog.Main.Func("init"), nil)
		if os.Getenv("GOSYM_TIMING") != "" {
			fmt.Fprintf(os.Stderr, "init %v steps %d\n", time.Since(tInit), i.steps)
		}
		i.inHarness = true
		call(i, nil, token.NoPos, fn, nil)
		completed = true
	}()
	w.mu.Lock()
	defer w.mu.Unlock()
	st := w.stats
	st.SolverTime += w.solver.Time - t0
	_ = q0
	if i.replay != nil {
		st.ReplayOut = i.replay.out
	}
	st.Inconclusive += ps.inconcl
	st.InconclusiveFeas += ps.inconclFeas
	st.SolverErrors = st.SolverErrors + w.solver.Errors
	w.solver.Errors = 0
	if engErr != "" {
		st.EngineErrors = append(st.EngineErrors, engErr)
		return nil
	}
	if ps.unwind != "" {
		st.Unwind = append(st.Unwind, ps.unwind)
	}
	if completed {
		st.Paths++
		if ps.symDecs > 0 || len(prefix) > 0 {
			st.NontrivialPaths++
		}
		if len(ps.trail) > st.MaxDecs {
			st.MaxDecs = len(ps.trail)
		}
		if len(st.Samples) < 5 {
			m := ps.model
			if m == nil {
				m = Model{} // concrete path (or no cached model): unconstrained inputs default to 0
				if len(ps.pc) > 0 {
					if r, mm := i.check(ps.tt.Bool(true), true, "enum"); r == Sat {
						m = mm
					}
				}
			}
			st.Samples = append(st.Samples, map[string]any{"decisions": len(ps.trail), "inputs": ps.replayOf(m)})
		}
	} else {
		st.Aborted++
	}
	for c := range ps.covers {
		st.Covers[c]++
	}
	for _, v := range ps.viols {
		// keep up to 4 counterexamples per label (from different paths): the
		// driver confirms a label if any of them reproduces natively
		same := 0
		for _, o := range st.Violations {
			if o.Label == v.Label && o.Known == v.Known {
				same++
			}
		}
		if same < 4 {
			st.Violations = append(st.Violations, v)
		}
	}
	for f, n := range i.funcsRun {
		st.FuncsExecuted[f] += n
	}
	for f, n := range i.stubHits {
		st.StubsHit[f] += n
	}
	return ps.newJobs
}

// SortedKeys is a helper for evidence output.
func SortedKeys(m map[string]int) []string {
	var ks []string
	for k := range m {
		ks = append(ks, k)
	}
	sort.Strings(ks)
	return ks
}

// Summary renders the statistics as a JSON-able map.
func (st *Stats) Summary() map[string]any {
	var viols []map[string]any
	for _, v := range st.Violations {
		viols = append(viols, map[string]any{"label": v.Label, "detail": v.Detail, "replay": v.Replay,
			"stack": v.Stack, "outputs": v.Outputs, "known": v.Known, "other": v.Other})
	}
	return map[string]any{
		"paths": st.Paths, "aborted": st.Aborted, "nontrivial_paths": st.NontrivialPaths,
		"queries": map[string]int{"feasibility": st.QFeas, "assertion": st.QAssert, "enumeration": st.QEnum},
		"solver_time_s": st.SolverTime.Seconds(), "wall_s": st.Wall.Seconds(),
		"fallback_queries": st.FallbackQueries, "fallback_decided": st.FallbackDecided,
		"inconclusive": st.Inconclusive, "inconclusive_feasibility_kept": st.InconclusiveFeas, "solver_errors": st.SolverErrors,
		"unwind": st.Unwind, "engine_errors": st.EngineErrors, "covers": st.Covers,
		"violations": viols, "max_decisions": st.MaxDecs, "samples": st.Samples,
		"funcs": len(st.FuncsExecuted), "stubs": st.StubsHit,
	}
}
