package sym

import (
	"fmt"
	"strings"
	"unsafe"
)

// Write-set monitor (DESIGN.md C08): between vMonitorWrites(true) and
// vMonitorWrites(false) every store, map update and in-place copy/append must
// target memory allocated during the monitored region or an object checked
// out of a sync.Pool during it (sync/atomic stubs and the harness's own
// recording writers are exempt). Anything else is memory another goroutine
// logging at the same time could be reading or writing: a data race.

type addrRange struct{ lo, hi uintptr }

type writeMon struct {
	cells  map[*value]bool
	ranges []addrRange
	keep   []any // keeps registered memory alive so addresses are not reused
	maps   map[*omap]bool
	nviol  int
}

func newWriteMon() *writeMon {
	return &writeMon{cells: map[*value]bool{}, maps: map[*omap]bool{}}
}

func (m *writeMon) ownSlice(s []value) {
	if m == nil || cap(s) == 0 {
		return
	}
	full := s[:cap(s)]
	lo := uintptr(unsafe.Pointer(&full[0]))
	hi := uintptr(unsafe.Pointer(&full[len(full)-1]))
	m.ranges = append(m.ranges, addrRange{lo, hi})
	m.keep = append(m.keep, full)
}

// ownValue registers the aggregates nested in v (arrays, structs, slices).
func (m *writeMon) ownValue(v value, depth int) {
	if m == nil || depth > 6 {
		return
	}
	switch v := v.(type) {
	case structure:
		m.ownSlice([]value(v))
		for _, f := range v {
			m.ownValue(f, depth+1)
		}
	case array:
		m.ownSlice([]value(v))
		for _, f := range v {
			m.ownValue(f, depth+1)
		}
	case []value:
		m.ownSlice(v)
	case *omap:
		if v != nil {
			m.maps[v] = true
		}
	}
}

// ownObject registers a pooled object: the cell it points to and everything
// nested in it (not followed through further pointers).
func (m *writeMon) ownObject(v value) {
	if m == nil {
		return
	}
	switch v := v.(type) {
	case iface:
		m.ownObject(v.v)
	case *value:
		if v != nil {
			m.cells[v] = true
			m.keep = append(m.keep, v)
			m.ownValue(*v, 0)
		}
	default:
		m.ownValue(v, 0)
	}
}

func (m *writeMon) ownsCell(p *value) bool {
	if m.cells[p] {
		return true
	}
	a := uintptr(unsafe.Pointer(p))
	for k := len(m.ranges) - 1; k >= 0; k-- {
		if r := m.ranges[k]; a >= r.lo && a <= r.hi {
			return true
		}
	}
	return false
}

// ownsObject: is the object handed to a pool owned by the monitored region?
func (m *writeMon) ownsObject(v value) bool {
	switch v := v.(type) {
	case iface:
		return m.ownsObject(v.v)
	case *value:
		return v == nil || m.ownsCell(v)
	case []value:
		if cap(v) == 0 {
			return true
		}
		return m.ownsCell(&v[:cap(v)][0])
	}
	return true
}

func harnessFrame(fr *frame) bool {
	for f := fr; f != nil; f = f.caller {
		if f.fn.Pkg != nil && f.fn.Pos().IsValid() {
			if strings.Contains(fr.i.prog.Fset.Position(f.fn.Pos()).Filename, "zz_verif_") {
				return true
			}
			return false
		}
	}
	return false
}

func (fr *frame) monitorStore(p *value, what string) {
	m := fr.i.mon
	if m == nil || p == nil || m.ownsCell(p) || harnessFrame(fr) {
		return
	}
	fr.monitorViolation(what)
}

func (fr *frame) monitorViolation(what string) {
	m := fr.i.mon
	m.nviol++
	pos := fr.i.where()
	fr.i.recordEngineViolation("C08: a log call writes only memory it owns [engine]",
		fmt.Sprintf("%s to memory that is neither allocated during the call nor checked out of a pool, at %s", what, pos))
}
