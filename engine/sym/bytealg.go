package sym

// Loop models of the assembly entry points of internal/bytealg. They work on
// cells that may be symbolic: every comparison goes through the interpreter's
// branch primitive, so a symbolic byte forks exactly like the Go loop would.

func cellsOf(x value) []value {
	switch x := x.(type) {
	case string:
		out := make([]value, len(x))
		for i := 0; i < len(x); i++ {
			out[i] = x[i]
		}
		return out
	case symstr:
		return x.b
	case []value:
		return x
	}
	panic(engineError{"cellsOf: unexpected operand"})
}

func (i *interpreter) byteEq(a, b value) bool {
	if x, ok := a.(uint8); ok {
		if y, ok := b.(uint8); ok {
			return x == y
		}
	}
	return i.truth(symEq(a, b))
}

func (i *interpreter) byteLess(a, b value) bool {
	if x, ok := a.(uint8); ok {
		if y, ok := b.(uint8); ok {
			return x < y
		}
	}
	return i.truth(symBinop("bvult", a, b))
}

func (i *interpreter) indexByte(s []value, c value) int {
	for k, b := range s {
		if i.byteEq(b, c) {
			return k
		}
	}
	return -1
}

func (i *interpreter) countByte(s []value, c value) int {
	n := 0
	for _, b := range s {
		if i.byteEq(b, c) {
			n++
		}
	}
	return n
}

func (i *interpreter) bytesEqual(a, b []value) bool {
	if len(a) != len(b) {
		return false
	}
	// one decision for the whole comparison when symbolic
	allConc := true
	for k := range a {
		_, ok1 := a[k].(uint8)
		_, ok2 := b[k].(uint8)
		if !ok1 || !ok2 {
			allConc = false
			break
		}
	}
	if allConc {
		for k := range a {
			if a[k].(uint8) != b[k].(uint8) {
				return false
			}
		}
		return true
	}
	return i.truth(symBytesEq(a, b))
}

func (i *interpreter) indexBytes(a, b []value) int {
	for k := 0; k+len(b) <= len(a); k++ {
		if i.bytesEqual(a[k:k+len(b)], b) {
			return k
		}
	}
	return -1
}

func (i *interpreter) compareBytes(a, b []value) int {
	n := len(a)
	if len(b) < n {
		n = len(b)
	}
	for k := 0; k < n; k++ {
		if i.byteEq(a[k], b[k]) {
			continue
		}
		if i.byteLess(a[k], b[k]) {
			return -1
		}
		return 1
	}
	switch {
	case len(a) < len(b):
		return -1
	case len(a) > len(b):
		return 1
	}
	return 0
}

func init() {
	externals["internal/bytealg.IndexByte"] = func(fr *frame, args []value) value {
		return fr.i.indexByte(cellsOf(args[0]), args[1])
	}
	externals["internal/bytealg.IndexByteString"] = externals["internal/bytealg.IndexByte"]
	externals["internal/bytealg.Count"] = func(fr *frame, args []value) value {
		return fr.i.countByte(cellsOf(args[0]), args[1])
	}
	externals["internal/bytealg.CountString"] = externals["internal/bytealg.Count"]
	externals["internal/bytealg.Equal"] = func(fr *frame, args []value) value {
		return fr.i.bytesEqual(cellsOf(args[0]), cellsOf(args[1]))
	}
	externals["internal/bytealg.Index"] = func(fr *frame, args []value) value {
		return fr.i.indexBytes(cellsOf(args[0]), cellsOf(args[1]))
	}
	externals["internal/bytealg.IndexString"] = externals["internal/bytealg.Index"]
	externals["internal/bytealg.Compare"] = func(fr *frame, args []value) value {
		return fr.i.compareBytes(cellsOf(args[0]), cellsOf(args[1]))
	}
	externals["internal/bytealg.MakeNoZero"] = func(fr *frame, args []value) value {
		n := int(asInt64(fr.i.concretize(args[0])))
		s := make([]value, n)
		for k := range s {
			s[k] = uint8(0)
		}
		fr.i.mon.ownSlice(s)
		return s
	}
}
