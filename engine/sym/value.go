// Copyright 2013 The Go Authors. All rights reserved.
// Use of this source code is governed by a BSD-style
// license that can be found in the LICENSE file.

package sym

// Values
//
// All interpreter values are "boxed" in the empty interface, value.
// The range of possible dynamic types within value are:
//
// - bool
// - numbers (all built-in int/float/complex types are distinguished)
// - string
// - map[value]value --- maps for which  usesBuiltinMap(keyType)
//   *hashmap        --- maps for which !usesBuiltinMap(keyType)
// - chan value
// - []value --- slices
// - iface --- interfaces.
// - structure --- structs.  Fields are ordered and accessed by numeric indices.
// - array --- arrays.
// - *value --- pointers.  Careful: *value is a distinct type from *array etc.
// - *ssa.Function \
//   *ssa.Builtin   } --- functions.  A nil 'func' is always of type *ssa.Function.
//   *closure      /
// - tuple --- as returned by Return, Next, "value,ok" modes, etc.
// - iter --- iterators from 'range' over map or string.
// - bad --- a poison pill for locals that have gone out of scope.
// - rtype -- the interpreter's concrete implementation of reflect.Type
// - **deferred -- the address of a frame's defer stack for a Defer._Stack.
//
// Note that nil is not on this list.
//
// Pay close attention to whether or not the dynamic type is a pointer.
// The compiler cannot help you since value is an empty interface.

import (
	"bytes"
	"fmt"
	"go/types"
	"io"
	"go/token"
	"strings"
	"sync"

	"golang.org/x/tools/go/ssa"
	"golang.org/x/tools/go/types/typeutil"
)

type value interface{}

type tuple []value

type array []value

type iface struct {
	t types.Type // never an "untyped" type
	v value
}

type structure []value

// For map, array, *array, slice, string or channel.
type iter interface {
	// next returns a Tuple (key, value, ok).
	// key and value are unaliased, e.g. copies of the sequence element.
	next() tuple
}

type closure struct {
	Fn  *ssa.Function
	Env []value
}

type bad struct{}

// uptr is the value of an unsafe.Pointer: the pointer it was converted from.
type uptr struct{ p *value }

var (
	fakeAddrs = map[*value]uintptr{}
	fakeNext  = uintptr(0xc000010000)
)

// fakeAddr gives pointers stable fake numeric addresses (allocation order of
// first use), so that address-printing code is deterministic.
func fakeAddr(p *value) uintptr {
	if p == nil {
		return 0
	}
	mu.Lock()
	defer mu.Unlock()
	if a, ok := fakeAddrs[p]; ok {
		return a
	}
	fakeNext += 0x40
	fakeAddrs[p] = fakeNext
	return fakeNext
}

type rtype struct {
	t types.Type
}

// Hash functions and equivalence relation:

// hashString computes the FNV hash of s.
func hashString(s string) int {
	var h uint32
	for i := 0; i < len(s); i++ {
		h ^= uint32(s[i])
		h *= 16777619
	}
	return int(h)
}

var (
	mu     sync.Mutex
	hasher = typeutil.MakeHasher()
)

// hashType returns a hash for t such that
// types.Identical(x, y) => hashType(x) == hashType(y).
func hashType(t types.Type) int {
	return int(hasher.Hash(t))
}

// usesBuiltinMap returns true if the built-in hash function and
// equivalence relation for type t are consistent with those of the
// interpreter's representation of type t.  Such types are: all basic
// types (bool, numbers, string), pointers and channels.
//
// usesBuiltinMap returns false for types that require a custom map
// implementation: interfaces, arrays and structs.
//
// Panic ensues if t is an invalid map key type: function, map or slice.
func usesBuiltinMap(t types.Type) bool {
	switch t := t.(type) {
	case *types.Basic, *types.Chan, *types.Pointer:
		return true
	case *types.Named, *types.Alias:
		return usesBuiltinMap(t.Underlying())
	case *types.Interface, *types.Array, *types.Struct:
		return false
	}
	panic(fmt.Sprintf("invalid map key type: %T", t))
}

// sameType is a nil-tolerant variant of types.Identical.
func sameType(x, y types.Type) bool {
	if x == nil {
		return y == nil
	}
	return y != nil && types.Identical(x, y)
}

func (x rtype) hash(_ types.Type) int {
	return hashType(x.t)
}

func (x rtype) eq(_ types.Type, y interface{}) bool {
	return types.Identical(x.t, y.(rtype).t)
}

// vAnd conjoins two truth values (bool or symbolic).
func vAnd(a, b value) value {
	if x, ok := a.(bool); ok {
		if !x {
			return false
		}
		return b
	}
	if y, ok := b.(bool); ok {
		if !y {
			return false
		}
		return a
	}
	return symBinopTok(token.LAND, a, b)
}

// eqv returns the truth value (bool, or symbolic sv of kind Bool) of x == y
// under Go's equivalence relation for type t. Comparing uncomparable dynamic
// types panics like Go does.
func eqv(t types.Type, x, y value) value {
	// a cell beyond the length of a slice that was never stored to holds no
	// value yet: it is the zero value of its type
	if x == nil && t != nil {
		x = zero(t)
	}
	if y == nil && t != nil {
		y = zero(t)
	}
	if isSym(x) || isSym(y) {
		if isStr(x) || isStr(y) {
			return symBinopTok(token.EQL, x, y)
		}
		return symEq(x, y)
	}
	switch x := x.(type) {
	case bool:
		return x == y.(bool)
	case int:
		return x == y.(int)
	case int8:
		return x == y.(int8)
	case int16:
		return x == y.(int16)
	case int32:
		return x == y.(int32)
	case int64:
		return x == y.(int64)
	case uint:
		return x == y.(uint)
	case uint8:
		return x == y.(uint8)
	case uint16:
		return x == y.(uint16)
	case uint32:
		return x == y.(uint32)
	case uint64:
		return x == y.(uint64)
	case uintptr:
		return x == y.(uintptr)
	case float32:
		return x == y.(float32)
	case float64:
		return x == y.(float64)
	case complex64:
		return x == y.(complex64)
	case complex128:
		return x == y.(complex128)
	case string:
		return x == y.(string)
	case *value:
		return x == y.(*value)
	case uptr:
		return x == y.(uptr)
	case chan value:
		return x == y.(chan value)
	case structure:
		y := y.(structure)
		tStruct := t.Underlying().(*types.Struct)
		var r value = true
		for i, n := 0, tStruct.NumFields(); i < n; i++ {
			if f := tStruct.Field(i); f.Name() != "_" {
				r = vAnd(r, eqv(f.Type(), x[i], y[i]))
				if r == false {
					return false
				}
			}
		}
		return r
	case array:
		y := y.(array)
		tElt := t.Underlying().(*types.Array).Elem()
		var r value = true
		for i, xi := range x {
			r = vAnd(r, eqv(tElt, xi, y[i]))
			if r == false {
				return false
			}
		}
		return r
	case iface:
		y := y.(iface)
		if !sameType(x.t, y.t) {
			return false
		}
		if x.t == nil {
			return true
		}
		return eqv(x.t, x.v, y.v)
	case rtype:
		return x.eq(t, y)
	case *omap:
		// only reachable through interface comparison of map values
		panic(targetPanic{rtErr("comparing uncomparable type " + t.String())})
	}
	panic(targetPanic{rtErr(fmt.Sprintf("comparing uncomparable type %s", t))})
}

// equals is eqv for operands that must be concrete.
func equals(t types.Type, x, y value) bool {
	r := eqv(t, x, y)
	if b, ok := r.(bool); ok {
		return b
	}
	panic(engineError{"symbolic comparison where a concrete one is required"})
}

// reflect.Value struct values don't have a fixed shape, since the
// payload can be a scalar or an aggregate depending on the instance.
// So store (and load) can't simply use recursion over the shape of the
// rhs value, or the lhs, to copy the value; we need the static type
// information.  (We can't make reflect.Value a new basic data type
// because its "structness" is exposed to Go programs.)

// load returns the value of type T in *addr.
func load(T types.Type, addr *value) value {
	switch T := T.Underlying().(type) {
	case *types.Struct:
		v := (*addr).(structure)
		a := make(structure, len(v))
		for i := range a {
			a[i] = load(T.Field(i).Type(), &v[i])
		}
		return a
	case *types.Array:
		v := (*addr).(array)
		a := make(array, len(v))
		for i := range a {
			a[i] = load(T.Elem(), &v[i])
		}
		return a
	default:
		return *addr
	}
}

// store stores value v of type T into *addr.
func store(T types.Type, addr *value, v value) {
	switch T := T.Underlying().(type) {
	case *types.Struct:
		lhs := (*addr).(structure)
		rhs := v.(structure)
		for i := range lhs {
			store(T.Field(i).Type(), &lhs[i], rhs[i])
		}
	case *types.Array:
		lhs := (*addr).(array)
		rhs := v.(array)
		for i := range lhs {
			store(T.Elem(), &lhs[i], rhs[i])
		}
	default:
		*addr = v
	}
}

// Prints in the style of built-in println.
// (More or less; in gc println is actually a compiler intrinsic and
// can distinguish println(1) from println(interface{}(1)).)
func writeValue(buf *bytes.Buffer, v value) {
	switch v := v.(type) {
	case nil, bool, int, int8, int16, int32, int64, uint, uint8, uint16, uint32, uint64, uintptr, float32, float64, complex64, complex128, string:
		fmt.Fprintf(buf, "%v", v)

	case *omap:
		buf.WriteString("map[")
		sep := ""
		if v != nil {
			for _, e := range v.ents {
				buf.WriteString(sep)
				sep = " "
				writeValue(buf, e.key)
				buf.WriteString(":")
				writeValue(buf, e.val)
			}
		}
		buf.WriteString("]")

	case sv:
		fmt.Fprintf(buf, "<sym %s>", v.T.key)

	case symstr:
		buf.WriteString("<symstr ")
		for _, c := range v.b {
			if b, ok := c.(uint8); ok {
				fmt.Fprintf(buf, "%02x", b)
			} else {
				buf.WriteString("??")
			}
		}
		buf.WriteString(">")

	case uptr:
		fmt.Fprintf(buf, "%p", v.p)

	case chan value:
		fmt.Fprintf(buf, "%v", v) // (an address)

	case *value:
		if v == nil {
			buf.WriteString("<nil>")
		} else {
			fmt.Fprintf(buf, "%p", v)
		}

	case iface:
		fmt.Fprintf(buf, "(%s, ", v.t)
		writeValue(buf, v.v)
		buf.WriteString(")")

	case structure:
		buf.WriteString("{")
		for i, e := range v {
			if i > 0 {
				buf.WriteString(" ")
			}
			writeValue(buf, e)
		}
		buf.WriteString("}")

	case array:
		buf.WriteString("[")
		for i, e := range v {
			if i > 0 {
				buf.WriteString(" ")
			}
			writeValue(buf, e)
		}
		buf.WriteString("]")

	case []value:
		buf.WriteString("[")
		for i, e := range v {
			if i > 0 {
				buf.WriteString(" ")
			}
			writeValue(buf, e)
		}
		buf.WriteString("]")

	case *ssa.Function, *ssa.Builtin, *closure:
		fmt.Fprintf(buf, "%p", v) // (an address)

	case rtype:
		buf.WriteString(v.t.String())

	case tuple:
		// Unreachable in well-formed Go programs
		buf.WriteString("(")
		for i, e := range v {
			if i > 0 {
				buf.WriteString(", ")
			}
			writeValue(buf, e)
		}
		buf.WriteString(")")

	default:
		fmt.Fprintf(buf, "<%T>", v)
	}
}

// Implements printing of Go values in the style of built-in println.
func toString(v value) string {
	var b bytes.Buffer
	writeValue(&b, v)
	return b.String()
}

// ------------------------------------------------------------------------
// Iterators

type stringIter struct {
	*strings.Reader
	i int
}

func (it *stringIter) next() tuple {
	okv := make(tuple, 3)
	ch, n, err := it.ReadRune()
	ok := err != io.EOF
	okv[0] = ok
	if ok {
		okv[1] = it.i
		okv[2] = ch
	}
	it.i += n
	return okv
}

// omapIter iterates over a snapshot of the entries in insertion order
// (Go leaves the order unspecified; the engine's choice is deterministic so
// that paths can be re-executed). Entries deleted during iteration are skipped.
type omapIter struct {
	m    *omap
	ents []*ment
	k    int
}

func (it *omapIter) next() tuple {
	for it.k < len(it.ents) {
		e := it.ents[it.k]
		it.k++
		if e.deleted {
			continue
		}
		return []value{true, e.key, e.val}
	}
	return []value{false, nil, nil}
}
