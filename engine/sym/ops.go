// Copyright 2013 The Go Authors. All rights reserved.
// Use of this source code is governed by a BSD-style
// license that can be found in the LICENSE file.

package sym

import (
	"bytes"
	"fmt"
	"go/constant"
	"go/token"
	"go/types"
	"os"
	"strings"
	"unsafe"

	"golang.org/x/tools/go/ssa"
)

// If the target program panics, the interpreter panics with this type.
type targetPanic struct {
	v value
}

func (p targetPanic) String() string {
	return toString(p.v)
}

// If the target program calls exit, the interpreter panics with this type.
type exitPanic int

// constValue returns the value of the constant with the
// dynamic type tag appropriate for c.Type().
func constValue(c *ssa.Const) value {
	if c.Value == nil {
		return zero(c.Type()) // typed zero
	}
	// c is not a type parameter so it's underlying type is basic.

	if t, ok := c.Type().Underlying().(*types.Basic); ok {
		// TODO(adonovan): eliminate untyped constants from SSA form.
		switch t.Kind() {
		case types.Bool, types.UntypedBool:
			return constant.BoolVal(c.Value)
		case types.Int, types.UntypedInt:
			// Assume sizeof(int) is same on host and target.
			return int(c.Int64())
		case types.Int8:
			return int8(c.Int64())
		case types.Int16:
			return int16(c.Int64())
		case types.Int32, types.UntypedRune:
			return int32(c.Int64())
		case types.Int64:
			return c.Int64()
		case types.Uint:
			// Assume sizeof(uint) is same on host and target.
			return uint(c.Uint64())
		case types.Uint8:
			return uint8(c.Uint64())
		case types.Uint16:
			return uint16(c.Uint64())
		case types.Uint32:
			return uint32(c.Uint64())
		case types.Uint64:
			return c.Uint64()
		case types.Uintptr:
			// Assume sizeof(uintptr) is same on host and target.
			return uintptr(c.Uint64())
		case types.Float32:
			return float32(c.Float64())
		case types.Float64, types.UntypedFloat:
			return c.Float64()
		case types.Complex64:
			return complex64(c.Complex128())
		case types.Complex128, types.UntypedComplex:
			return c.Complex128()
		case types.String, types.UntypedString:
			if c.Value.Kind() == constant.String {
				return constant.StringVal(c.Value)
			}
			return string(rune(c.Int64()))
		}
	}

	panic(fmt.Sprintf("constValue: %s", c))
}

// fitsInt returns true if x fits in type int according to sizes.
func fitsInt(x int64, sizes types.Sizes) bool {
	intSize := sizes.Sizeof(types.Typ[types.Int])
	if intSize < sizes.Sizeof(types.Typ[types.Int64]) {
		maxInt := int64(1)<<((intSize*8)-1) - 1
		minInt := -int64(1) << ((intSize * 8) - 1)
		return minInt <= x && x <= maxInt
	}
	return true
}

// asInt64 converts x, which must be an integer, to an int64.
//
// Callers that need a value directly usable as an int should combine this with fitsInt().
func asInt64(x value) int64 {
	switch x := x.(type) {
	case int:
		return int64(x)
	case int8:
		return int64(x)
	case int16:
		return int64(x)
	case int32:
		return int64(x)
	case int64:
		return x
	case uint:
		return int64(x)
	case uint8:
		return int64(x)
	case uint16:
		return int64(x)
	case uint32:
		return int64(x)
	case uint64:
		return int64(x)
	case uintptr:
		return int64(x)
	case sv:
		panic(engineError{"symbolic integer where a concrete one is required (missing concretisation)"})
	}
	panic(fmt.Sprintf("cannot convert %T to int64", x))
}

// asUint64 converts x, which must be an unsigned integer, to a uint64
// suitable for use as a bitwise shift count.
func asUint64(x value) uint64 {
	switch x := x.(type) {
	case uint:
		return uint64(x)
	case uint8:
		return uint64(x)
	case uint16:
		return uint64(x)
	case uint32:
		return uint64(x)
	case uint64:
		return x
	case uintptr:
		return uint64(x)
	}
	panic(fmt.Sprintf("cannot convert %T to uint64", x))
}

// asUnsigned returns the value of x, which must be an integer type, as its equivalent unsigned type,
// and returns true if x is non-negative.
func asUnsigned(x value) (value, bool) {
	switch x := x.(type) {
	case int:
		return uint(x), x >= 0
	case int8:
		return uint8(x), x >= 0
	case int16:
		return uint16(x), x >= 0
	case int32:
		return uint32(x), x >= 0
	case int64:
		return uint64(x), x >= 0
	case uint, uint8, uint32, uint64, uintptr:
		return x, true
	}
	panic(fmt.Sprintf("cannot convert %T to unsigned", x))
}

// zero returns a new "zero" value of the specified type.
func zero(t types.Type) value {
	switch t := t.(type) {
	case *types.Basic:
		if t.Kind() == types.UntypedNil {
			panic("untyped nil has no zero value")
		}
		if t.Info()&types.IsUntyped != 0 {
			// TODO(adonovan): make it an invariant that
			// this is unreachable.  Currently some
			// constants have 'untyped' types when they
			// should be defaulted by the typechecker.
			t = types.Default(t).(*types.Basic)
		}
		switch t.Kind() {
		case types.Bool:
			return false
		case types.Int:
			return int(0)
		case types.Int8:
			return int8(0)
		case types.Int16:
			return int16(0)
		case types.Int32:
			return int32(0)
		case types.Int64:
			return int64(0)
		case types.Uint:
			return uint(0)
		case types.Uint8:
			return uint8(0)
		case types.Uint16:
			return uint16(0)
		case types.Uint32:
			return uint32(0)
		case types.Uint64:
			return uint64(0)
		case types.Uintptr:
			return uintptr(0)
		case types.Float32:
			return float32(0)
		case types.Float64:
			return float64(0)
		case types.Complex64:
			return complex64(0)
		case types.Complex128:
			return complex128(0)
		case types.String:
			return ""
		case types.UnsafePointer:
			return uptr{}
		default:
			panic(fmt.Sprint("zero for unexpected type:", t))
		}
	case *types.Pointer:
		return (*value)(nil)
	case *types.Array:
		a := make(array, t.Len())
		for i := range a {
			a[i] = zero(t.Elem())
		}
		return a
	case *types.Named:
		return zero(t.Underlying())
	case *types.Alias:
		return zero(types.Unalias(t))
	case *types.Interface:
		return iface{} // nil type, methodset and value
	case *types.Slice:
		return []value(nil)
	case *types.Struct:
		s := make(structure, t.NumFields())
		for i := range s {
			s[i] = zero(t.Field(i).Type())
		}
		return s
	case *types.Tuple:
		if t.Len() == 1 {
			return zero(t.At(0).Type())
		}
		s := make(tuple, t.Len())
		for i := range s {
			s[i] = zero(t.At(i).Type())
		}
		return s
	case *types.Chan:
		return chan value(nil)
	case *types.Map:
		return (*omap)(nil)
	case *types.Signature:
		return (*ssa.Function)(nil)
	}
	panic(fmt.Sprint("zero: unexpected ", t))
}

// slice returns x[lo:hi:max].  Any of lo, hi and max may be nil. Bounds may
// be symbolic: the bounds check forks, then the bounds are concretised.
func (fr *frame) slice(x, lo, hi, max value) value {
	var Len, Cap int
	switch x := x.(type) {
	case string:
		Len = len(x)
		Cap = Len
	case symstr:
		Len = len(x.b)
		Cap = Len
	case []value:
		Len = len(x)
		Cap = cap(x)
	case *value: // *array
		if x == nil {
			panic(targetPanic{rtErr("invalid memory address or nil pointer dereference")})
		}
		a := (*x).(array)
		Len = len(a)
		Cap = cap(a)
	}
	i := fr.i
	var l, h, m value = int(0), int(Len), int(Cap)
	if lo != nil {
		l = lo
	}
	if hi != nil {
		h = hi
	}
	if max != nil {
		m = max
	}
	l, h, m = toIntV(l), toIntV(h), toIntV(m)
	ok := vAnd(vAnd(binop(token.LEQ, nil, int(0), l), binop(token.LEQ, nil, l, h)),
		vAnd(binop(token.LEQ, nil, h, m), binop(token.LEQ, nil, m, int(Cap))))
	if !i.truth(ok) {
		panic(targetPanic{rtErr("slice bounds out of range")})
	}
	li := i.concretize(l).(int)
	hi2 := i.concretize(h).(int)
	mi := i.concretize(m).(int)
	switch x := x.(type) {
	case string:
		return x[li:hi2]
	case symstr:
		return mkString(x.b[li:hi2])
	case []value:
		return x[li:hi2:mi]
	case *value: // *array
		a := (*x).(array)
		return []value(a)[li:hi2:mi]
	}
	panic(fmt.Sprintf("slice: unexpected X type: %T", x))
}

// toIntV converts an integer value (concrete or symbolic) to Go kind int.
func toIntV(v value) value {
	if s, ok := v.(sv); ok {
		return symConv(types.Int, s)
	}
	return int(asInt64(v))
}

// lookupIte answers a lookup with a symbolic scalar key in a map whose keys
// are concrete and whose values are scalars as an if-then-else chain, so
// that table lookups (level tables) do not fork.
func (fr *frame) lookupIte(instr *ssa.Lookup, m *omap, idx value) (value, bool) {
	k, ok := idx.(sv)
	if !ok || m == nil || m.symKeys || len(m.ents) == 0 || len(m.ents) > 64 {
		return nil, false
	}
	et := instr.X.Type().Underlying().(*types.Map).Elem()
	eb, ok := et.Underlying().(*types.Basic)
	if !ok || eb.Info()&(types.IsInteger|types.IsBoolean) == 0 {
		return nil, false
	}
	tt := k.T.tt
	w, _ := kindInfo(eb.Kind())
	val := tt.Const(w, 0)
	found := tt.Bool(false)
	for j := len(m.ents) - 1; j >= 0; j-- {
		e := m.ents[j]
		if isSym(e.key) {
			return nil, false
		}
		kt, _ := lift(tt, e.key)
		c := tt.Eq(k.T, kt)
		vt, _ := lift(tt, e.val)
		val = tt.Ite(c, vt, val)
		found = tt.Or(c, found)
	}
	v := norm(val, eb.Kind())
	if instr.CommaOk {
		return tuple{v, norm(found, types.Bool)}, true
	}
	return v, true
}

// indexIte reads x[idx] for a symbolic idx from a string or an array of
// scalars as an if-then-else chain (after the forking bounds check), so
// that table look-ups such as hex[b>>4] do not fork per element.
func (fr *frame) indexIte(x, idx value) (value, bool) {
	var cells []value
	switch x := x.(type) {
	case string:
		cells = strCells(x)
	case symstr:
		cells = x.b
	case array:
		cells = x
	default:
		return nil, false
	}
	if len(cells) == 0 || len(cells) > 256 {
		return nil, false
	}
	// element shape: a scalar, or a struct of scalars (e.g. utf8.acceptRanges)
	nf := 0
	if st, ok := cells[0].(structure); ok {
		nf = len(st)
	}
	comp := func(c value, f int) (value, bool) {
		if nf == 0 {
			return c, true
		}
		st, ok := c.(structure)
		if !ok || len(st) != nf {
			return nil, false
		}
		return st[f], true
	}
	nfields := nf
	if nfields == 0 {
		nfields = 1
	}
	kinds := make([]types.BasicKind, nfields)
	for f := 0; f < nfields; f++ {
		for j, c := range cells {
			e, ok := comp(c, f)
			if !ok {
				return nil, false
			}
			var k types.BasicKind
			if s, ok := e.(sv); ok {
				k = s.K
			} else if kk, _, ok := kindOf(e); ok {
				k = kk
			} else {
				return nil, false
			}
			if j > 0 && k != kinds[f] {
				return nil, false
			}
			kinds[f] = k
		}
	}
	k := toIntV(idx)
	inr := vAnd(binop(token.LEQ, nil, int(0), k), binop(token.LSS, nil, k, int(len(cells))))
	if !fr.i.truth(inr) {
		panic(targetPanic{rtErr("index out of range")})
	}
	ks, ok := k.(sv)
	if !ok {
		return cells[k.(int)], true
	}
	tt := ks.T.tt
	out := make(structure, nfields)
	for f := 0; f < nfields; f++ {
		// runs of equal consecutive values become one range test each
		type run struct {
			end int
			t   *Term
		}
		var runs []run
		for j := 0; j < len(cells); j++ {
			e, _ := comp(cells[j], f)
			cj, _ := lift(tt, e)
			if n := len(runs); n > 0 && runs[n-1].t == cj {
				runs[n-1].end = j
			} else {
				runs = append(runs, run{j, cj})
			}
		}
		acc := runs[len(runs)-1].t
		for j := len(runs) - 2; j >= 0; j-- {
			var c *Term
			if j > 0 && runs[j].end == runs[j-1].end+1 {
				c = tt.Eq(ks.T, tt.Const(64, uint64(runs[j].end)))
			} else {
				c = tt.App("bvule", 0, ks.T, tt.Const(64, uint64(runs[j].end)))
			}
			acc = tt.Ite(c, runs[j].t, acc)
		}
		out[f] = norm(acc, kinds[f])
	}
	if nf == 0 {
		return out[0], true
	}
	return out, true
}

// rtErr builds a runtime.Error-like value for target-level run-time panics.
func rtErr(msg string) value {
	return iface{t: theRuntimeErrorString, v: msg}
}

var theRuntimeErrorString types.Type

// index checks idx against n (forking if symbolic) and returns it concretely.
func (fr *frame) index(idx value, n int) int {
	if s, ok := idx.(sv); ok {
		k := symConv(types.Int, s)
		inr := vAnd(binop(token.LEQ, nil, int(0), k), binop(token.LSS, nil, k, int(n)))
		if !fr.i.truth(inr) {
			panic(targetPanic{rtErr("index out of range")})
		}
		return fr.i.concretize(k).(int)
	}
	var k int64
	if u, ok := idx.(uint64); ok && u > 1<<62 {
		k = -1
	} else if u, ok := idx.(uint); ok && u > 1<<62 {
		k = -1
	} else {
		k = asInt64(idx)
	}
	if k < 0 || k >= int64(n) {
		panic(targetPanic{rtErr(fmt.Sprintf("index out of range [%d] with length %d", k, n))})
	}
	return int(k)
}

// lookup returns x[idx] where x is a map.
func (fr *frame) lookup(instr *ssa.Lookup, x, idx value) value {
	switch x := x.(type) { // map or string
	case *omap:
		if r, ok := fr.lookupIte(instr, x, idx); ok {
			return r
		}
		var v value
		e := x.find(fr.i, idx)
		ok := e != nil
		if ok {
			v = e.val
		} else {
			v = zero(instr.X.Type().Underlying().(*types.Map).Elem())
		}
		if instr.CommaOk {
			v = tuple{v, ok}
		}
		return v
	}
	panic(fmt.Sprintf("unexpected x type in Lookup: %T", x))
}

// binop implements all arithmetic and logical binary operators for
// numeric datatypes and strings.  Both operands must have identical
// dynamic type.
func binop(op token.Token, t types.Type, x, y value) value {
	if isFloatSym(x) || isFloatSym(y) {
		if fx, ok := x.(sfloat); ok {
			if c, ok := y.(float64); ok && op == token.MUL {
				return sfloatMul(fx, c)
			}
		}
		if fy, ok := y.(sfloat); ok {
			if c, ok := x.(float64); ok && op == token.MUL {
				return sfloatMul(fy, c)
			}
		}
		return fpBinop(op, x, y)
	}
	if isSym(x) || isSym(y) {
		return symBinopTok(op, x, y)
	}
	if op == token.QUO || op == token.REM {
		if _, v, ok := kindOf(y); ok && v == 0 {
			panic(targetPanic{rtErr("integer divide by zero")})
		}
	}
	switch op {
	case token.ADD:
		switch x.(type) {
		case int:
			return x.(int) + y.(int)
		case int8:
			return x.(int8) + y.(int8)
		case int16:
			return x.(int16) + y.(int16)
		case int32:
			return x.(int32) + y.(int32)
		case int64:
			return x.(int64) + y.(int64)
		case uint:
			return x.(uint) + y.(uint)
		case uint8:
			return x.(uint8) + y.(uint8)
		case uint16:
			return x.(uint16) + y.(uint16)
		case uint32:
			return x.(uint32) + y.(uint32)
		case uint64:
			return x.(uint64) + y.(uint64)
		case uintptr:
			return x.(uintptr) + y.(uintptr)
		case float32:
			return x.(float32) + y.(float32)
		case float64:
			return x.(float64) + y.(float64)
		case complex64:
			return x.(complex64) + y.(complex64)
		case complex128:
			return x.(complex128) + y.(complex128)
		case string:
			return x.(string) + y.(string)
		}

	case token.SUB:
		switch x.(type) {
		case int:
			return x.(int) - y.(int)
		case int8:
			return x.(int8) - y.(int8)
		case int16:
			return x.(int16) - y.(int16)
		case int32:
			return x.(int32) - y.(int32)
		case int64:
			return x.(int64) - y.(int64)
		case uint:
			return x.(uint) - y.(uint)
		case uint8:
			return x.(uint8) - y.(uint8)
		case uint16:
			return x.(uint16) - y.(uint16)
		case uint32:
			return x.(uint32) - y.(uint32)
		case uint64:
			return x.(uint64) - y.(uint64)
		case uintptr:
			return x.(uintptr) - y.(uintptr)
		case float32:
			return x.(float32) - y.(float32)
		case float64:
			return x.(float64) - y.(float64)
		case complex64:
			return x.(complex64) - y.(complex64)
		case complex128:
			return x.(complex128) - y.(complex128)
		}

	case token.MUL:
		switch x.(type) {
		case int:
			return x.(int) * y.(int)
		case int8:
			return x.(int8) * y.(int8)
		case int16:
			return x.(int16) * y.(int16)
		case int32:
			return x.(int32) * y.(int32)
		case int64:
			return x.(int64) * y.(int64)
		case uint:
			return x.(uint) * y.(uint)
		case uint8:
			return x.(uint8) * y.(uint8)
		case uint16:
			return x.(uint16) * y.(uint16)
		case uint32:
			return x.(uint32) * y.(uint32)
		case uint64:
			return x.(uint64) * y.(uint64)
		case uintptr:
			return x.(uintptr) * y.(uintptr)
		case float32:
			return x.(float32) * y.(float32)
		case float64:
			return x.(float64) * y.(float64)
		case complex64:
			return x.(complex64) * y.(complex64)
		case complex128:
			return x.(complex128) * y.(complex128)
		}

	case token.QUO:
		switch x.(type) {
		case int:
			return x.(int) / y.(int)
		case int8:
			return x.(int8) / y.(int8)
		case int16:
			return x.(int16) / y.(int16)
		case int32:
			return x.(int32) / y.(int32)
		case int64:
			return x.(int64) / y.(int64)
		case uint:
			return x.(uint) / y.(uint)
		case uint8:
			return x.(uint8) / y.(uint8)
		case uint16:
			return x.(uint16) / y.(uint16)
		case uint32:
			return x.(uint32) / y.(uint32)
		case uint64:
			return x.(uint64) / y.(uint64)
		case uintptr:
			return x.(uintptr) / y.(uintptr)
		case float32:
			return x.(float32) / y.(float32)
		case float64:
			return x.(float64) / y.(float64)
		case complex64:
			return x.(complex64) / y.(complex64)
		case complex128:
			return x.(complex128) / y.(complex128)
		}

	case token.REM:
		switch x.(type) {
		case int:
			return x.(int) % y.(int)
		case int8:
			return x.(int8) % y.(int8)
		case int16:
			return x.(int16) % y.(int16)
		case int32:
			return x.(int32) % y.(int32)
		case int64:
			return x.(int64) % y.(int64)
		case uint:
			return x.(uint) % y.(uint)
		case uint8:
			return x.(uint8) % y.(uint8)
		case uint16:
			return x.(uint16) % y.(uint16)
		case uint32:
			return x.(uint32) % y.(uint32)
		case uint64:
			return x.(uint64) % y.(uint64)
		case uintptr:
			return x.(uintptr) % y.(uintptr)
		}

	case token.AND:
		switch x.(type) {
		case int:
			return x.(int) & y.(int)
		case int8:
			return x.(int8) & y.(int8)
		case int16:
			return x.(int16) & y.(int16)
		case int32:
			return x.(int32) & y.(int32)
		case int64:
			return x.(int64) & y.(int64)
		case uint:
			return x.(uint) & y.(uint)
		case uint8:
			return x.(uint8) & y.(uint8)
		case uint16:
			return x.(uint16) & y.(uint16)
		case uint32:
			return x.(uint32) & y.(uint32)
		case uint64:
			return x.(uint64) & y.(uint64)
		case uintptr:
			return x.(uintptr) & y.(uintptr)
		}

	case token.OR:
		switch x.(type) {
		case int:
			return x.(int) | y.(int)
		case int8:
			return x.(int8) | y.(int8)
		case int16:
			return x.(int16) | y.(int16)
		case int32:
			return x.(int32) | y.(int32)
		case int64:
			return x.(int64) | y.(int64)
		case uint:
			return x.(uint) | y.(uint)
		case uint8:
			return x.(uint8) | y.(uint8)
		case uint16:
			return x.(uint16) | y.(uint16)
		case uint32:
			return x.(uint32) | y.(uint32)
		case uint64:
			return x.(uint64) | y.(uint64)
		case uintptr:
			return x.(uintptr) | y.(uintptr)
		}

	case token.XOR:
		switch x.(type) {
		case int:
			return x.(int) ^ y.(int)
		case int8:
			return x.(int8) ^ y.(int8)
		case int16:
			return x.(int16) ^ y.(int16)
		case int32:
			return x.(int32) ^ y.(int32)
		case int64:
			return x.(int64) ^ y.(int64)
		case uint:
			return x.(uint) ^ y.(uint)
		case uint8:
			return x.(uint8) ^ y.(uint8)
		case uint16:
			return x.(uint16) ^ y.(uint16)
		case uint32:
			return x.(uint32) ^ y.(uint32)
		case uint64:
			return x.(uint64) ^ y.(uint64)
		case uintptr:
			return x.(uintptr) ^ y.(uintptr)
		}

	case token.AND_NOT:
		switch x.(type) {
		case int:
			return x.(int) &^ y.(int)
		case int8:
			return x.(int8) &^ y.(int8)
		case int16:
			return x.(int16) &^ y.(int16)
		case int32:
			return x.(int32) &^ y.(int32)
		case int64:
			return x.(int64) &^ y.(int64)
		case uint:
			return x.(uint) &^ y.(uint)
		case uint8:
			return x.(uint8) &^ y.(uint8)
		case uint16:
			return x.(uint16) &^ y.(uint16)
		case uint32:
			return x.(uint32) &^ y.(uint32)
		case uint64:
			return x.(uint64) &^ y.(uint64)
		case uintptr:
			return x.(uintptr) &^ y.(uintptr)
		}

	case token.SHL:
		u, ok := asUnsigned(y)
		if !ok {
			panic("negative shift amount")
		}
		y := asUint64(u)
		switch x.(type) {
		case int:
			return x.(int) << y
		case int8:
			return x.(int8) << y
		case int16:
			return x.(int16) << y
		case int32:
			return x.(int32) << y
		case int64:
			return x.(int64) << y
		case uint:
			return x.(uint) << y
		case uint8:
			return x.(uint8) << y
		case uint16:
			return x.(uint16) << y
		case uint32:
			return x.(uint32) << y
		case uint64:
			return x.(uint64) << y
		case uintptr:
			return x.(uintptr) << y
		}

	case token.SHR:
		u, ok := asUnsigned(y)
		if !ok {
			panic("negative shift amount")
		}
		y := asUint64(u)
		switch x.(type) {
		case int:
			return x.(int) >> y
		case int8:
			return x.(int8) >> y
		case int16:
			return x.(int16) >> y
		case int32:
			return x.(int32) >> y
		case int64:
			return x.(int64) >> y
		case uint:
			return x.(uint) >> y
		case uint8:
			return x.(uint8) >> y
		case uint16:
			return x.(uint16) >> y
		case uint32:
			return x.(uint32) >> y
		case uint64:
			return x.(uint64) >> y
		case uintptr:
			return x.(uintptr) >> y
		}

	case token.LSS:
		switch x.(type) {
		case int:
			return x.(int) < y.(int)
		case int8:
			return x.(int8) < y.(int8)
		case int16:
			return x.(int16) < y.(int16)
		case int32:
			return x.(int32) < y.(int32)
		case int64:
			return x.(int64) < y.(int64)
		case uint:
			return x.(uint) < y.(uint)
		case uint8:
			return x.(uint8) < y.(uint8)
		case uint16:
			return x.(uint16) < y.(uint16)
		case uint32:
			return x.(uint32) < y.(uint32)
		case uint64:
			return x.(uint64) < y.(uint64)
		case uintptr:
			return x.(uintptr) < y.(uintptr)
		case float32:
			return x.(float32) < y.(float32)
		case float64:
			return x.(float64) < y.(float64)
		case string:
			return x.(string) < y.(string)
		}

	case token.LEQ:
		switch x.(type) {
		case int:
			return x.(int) <= y.(int)
		case int8:
			return x.(int8) <= y.(int8)
		case int16:
			return x.(int16) <= y.(int16)
		case int32:
			return x.(int32) <= y.(int32)
		case int64:
			return x.(int64) <= y.(int64)
		case uint:
			return x.(uint) <= y.(uint)
		case uint8:
			return x.(uint8) <= y.(uint8)
		case uint16:
			return x.(uint16) <= y.(uint16)
		case uint32:
			return x.(uint32) <= y.(uint32)
		case uint64:
			return x.(uint64) <= y.(uint64)
		case uintptr:
			return x.(uintptr) <= y.(uintptr)
		case float32:
			return x.(float32) <= y.(float32)
		case float64:
			return x.(float64) <= y.(float64)
		case string:
			return x.(string) <= y.(string)
		}

	case token.EQL:
		return eqnil(t, x, y)

	case token.NEQ:
		return symNot(eqnil(t, x, y))

	case token.GTR:
		switch x.(type) {
		case int:
			return x.(int) > y.(int)
		case int8:
			return x.(int8) > y.(int8)
		case int16:
			return x.(int16) > y.(int16)
		case int32:
			return x.(int32) > y.(int32)
		case int64:
			return x.(int64) > y.(int64)
		case uint:
			return x.(uint) > y.(uint)
		case uint8:
			return x.(uint8) > y.(uint8)
		case uint16:
			return x.(uint16) > y.(uint16)
		case uint32:
			return x.(uint32) > y.(uint32)
		case uint64:
			return x.(uint64) > y.(uint64)
		case uintptr:
			return x.(uintptr) > y.(uintptr)
		case float32:
			return x.(float32) > y.(float32)
		case float64:
			return x.(float64) > y.(float64)
		case string:
			return x.(string) > y.(string)
		}

	case token.GEQ:
		switch x.(type) {
		case int:
			return x.(int) >= y.(int)
		case int8:
			return x.(int8) >= y.(int8)
		case int16:
			return x.(int16) >= y.(int16)
		case int32:
			return x.(int32) >= y.(int32)
		case int64:
			return x.(int64) >= y.(int64)
		case uint:
			return x.(uint) >= y.(uint)
		case uint8:
			return x.(uint8) >= y.(uint8)
		case uint16:
			return x.(uint16) >= y.(uint16)
		case uint32:
			return x.(uint32) >= y.(uint32)
		case uint64:
			return x.(uint64) >= y.(uint64)
		case uintptr:
			return x.(uintptr) >= y.(uintptr)
		case float32:
			return x.(float32) >= y.(float32)
		case float64:
			return x.(float64) >= y.(float64)
		case string:
			return x.(string) >= y.(string)
		}
	}
	panic(fmt.Sprintf("invalid binary op: %T %s %T", x, op, y))
}

// eqnil returns the comparison x == y using the equivalence relation
// appropriate for type t.
// If t is a reference type, at most one of x or y may be a nil value
// of that type.
func eqnil(t types.Type, x, y value) value {
	switch t.Underlying().(type) {
	case *types.Map, *types.Signature, *types.Slice:
		// Since these types don't support comparison,
		// one of the operands must be a literal nil.
		switch x := x.(type) {
		case *omap:
			return (x != nil) == (y.(*omap) != nil)
		case *ssa.Function:
			switch y := y.(type) {
			case *ssa.Function:
				return (x != nil) == (y != nil)
			case *closure:
				return true
			}
		case *closure:
			return (x != nil) == (y.(*ssa.Function) != nil)
		case []value:
			return (x != nil) == (y.([]value) != nil)
		}
		panic(fmt.Sprintf("eqnil(%s): illegal dynamic type: %T", t, x))
	}

	return eqv(t, x, y)
}

func unop(instr *ssa.UnOp, x value) value {
	if s, ok := x.(sv); ok {
		return symUnop(instr.Op, s)
	}
	if isFloatSym(x) && instr.Op == token.SUB {
		tt := fpTable(x, nil)
		return sfp{tt.App("fp.neg", wFP, fpTerm(tt, x))}
	}
	switch instr.Op {
	case token.ARROW: // receive
		v, ok := <-x.(chan value)
		if !ok {
			v = zero(instr.X.Type().Underlying().(*types.Chan).Elem())
		}
		if instr.CommaOk {
			v = tuple{v, ok}
		}
		return v
	case token.SUB:
		switch x := x.(type) {
		case int:
			return -x
		case int8:
			return -x
		case int16:
			return -x
		case int32:
			return -x
		case int64:
			return -x
		case uint:
			return -x
		case uint8:
			return -x
		case uint16:
			return -x
		case uint32:
			return -x
		case uint64:
			return -x
		case uintptr:
			return -x
		case float32:
			return -x
		case float64:
			return -x
		case complex64:
			return -x
		case complex128:
			return -x
		}
	case token.MUL:
		p := x.(*value)
		if p == nil {
			panic(targetPanic{rtErr("invalid memory address or nil pointer dereference")})
		}
		return load(mustDeref(instr.X.Type()), p)
	case token.NOT:
		return !x.(bool)
	case token.XOR:
		switch x := x.(type) {
		case int:
			return ^x
		case int8:
			return ^x
		case int16:
			return ^x
		case int32:
			return ^x
		case int64:
			return ^x
		case uint:
			return ^x
		case uint8:
			return ^x
		case uint16:
			return ^x
		case uint32:
			return ^x
		case uint64:
			return ^x
		case uintptr:
			return ^x
		}
	}
	panic(fmt.Sprintf("invalid unary op %s %T", instr.Op, x))
}

// typeAssert checks whether dynamic type of itf is instr.AssertedType.
// It returns the extracted value on success, and panics on failure,
// unless instr.CommaOk, in which case it always returns a "value,ok" tuple.
func typeAssert(i *interpreter, instr *ssa.TypeAssert, itf iface) value {
	var v value
	err := ""
	if itf.t == nil {
		err = fmt.Sprintf("interface conversion: interface is nil, not %s", instr.AssertedType)

	} else if idst, ok := instr.AssertedType.Underlying().(*types.Interface); ok {
		v = itf
		err = checkInterface(i, idst, itf)

	} else if types.Identical(itf.t, instr.AssertedType) {
		v = itf.v // extract value

	} else {
		err = fmt.Sprintf("interface conversion: interface is %s, not %s", itf.t, instr.AssertedType)
	}
	// Note: if instr.Underlying==true ever becomes reachable from interp check that
	// types.Identical(itf.t.Underlying(), instr.AssertedType)

	if err != "" {
		if !instr.CommaOk {
			panic(targetPanic{rtErr(err)})
		}
		return tuple{zero(instr.AssertedType), false}
	}
	if instr.CommaOk {
		return tuple{v, true}
	}
	return v
}

// This variable is no longer used but remains to prevent build breakage.
var CapturedOutput *bytes.Buffer

// callBuiltin interprets a call to builtin fn with arguments args,
// returning its result.
func callBuiltin(caller *frame, callpos token.Pos, fn *ssa.Builtin, args []value) value {
	switch fn.Name() {
	case "append":
		if len(args) == 1 {
			return args[0]
		}
		if isStr(args[1]) {
			// append([]byte, ...string) []byte
			arg0 := args[0].([]value)
			return caller.appendMon(arg0, strCells(args[1]))
		}
		// append([]T, ...[]T) []T
		return caller.appendMon(args[0].([]value), args[1].([]value))

	case "copy": // copy([]T, []T) int or copy([]byte, string) int
		src := args[1]
		if isStr(src) {
			src = strCells(src)
		}
		if dst := args[0].([]value); caller.i.mon != nil && len(dst) > 0 && len(src.([]value)) > 0 {
			caller.monitorStore(&dst[0], "copy")
		}
		return copy(args[0].([]value), src.([]value))

	case "close": // close(chan T)
		close(args[0].(chan value))
		return nil

	case "delete": // delete(map[K]value, K)
		switch m := args[0].(type) {
		case *omap:
			if m != nil {
				m.delete(caller.i, args[1])
			}
		default:
			panic(fmt.Sprintf("illegal map type: %T", m))
		}
		return nil

	case "clear":
		switch m := args[0].(type) {
		case *omap:
			if m != nil {
				m.ents = nil
				m.idx = make(map[value]*ment)
				m.symKeys = false
			}
		case []value:
			et := fn.Type().(*types.Signature).Params().At(0).Type().Underlying().(*types.Slice).Elem()
			for k := range m {
				m[k] = zero(et)
			}
		}
		return nil

	case "print", "println": // print(any, ...)
		ln := fn.Name() == "println"
		var buf bytes.Buffer
		for i, arg := range args {
			if i > 0 && ln {
				buf.WriteRune(' ')
			}
			buf.WriteString(toString(arg))
		}
		if ln {
			buf.WriteRune('\n')
		}
		os.Stderr.Write(buf.Bytes())
		return nil

	case "len":
		switch x := args[0].(type) {
		case string:
			return len(x)
		case symstr:
			return len(x.b)
		case array:
			return len(x)
		case *value:
			return len((*x).(array))
		case []value:
			return len(x)
		case *omap:
			return x.len()
		case chan value:
			return len(x)
		default:
			panic(fmt.Sprintf("len: illegal operand: %T", x))
		}

	case "cap":
		switch x := args[0].(type) {
		case array:
			return cap(x)
		case *value:
			return cap((*x).(array))
		case []value:
			return cap(x)
		case chan value:
			return cap(x)
		default:
			panic(fmt.Sprintf("cap: illegal operand: %T", x))
		}

	case "min":
		return foldLeft(min, args)
	case "max":
		return foldLeft(max, args)

	case "real":
		switch c := args[0].(type) {
		case complex64:
			return real(c)
		case complex128:
			return real(c)
		default:
			panic(fmt.Sprintf("real: illegal operand: %T", c))
		}

	case "imag":
		switch c := args[0].(type) {
		case complex64:
			return imag(c)
		case complex128:
			return imag(c)
		default:
			panic(fmt.Sprintf("imag: illegal operand: %T", c))
		}

	case "complex":
		switch f := args[0].(type) {
		case float32:
			return complex(f, args[1].(float32))
		case float64:
			return complex(f, args[1].(float64))
		default:
			panic(fmt.Sprintf("complex: illegal operand: %T", f))
		}

	case "panic":
		// ssa.Panic handles most cases; this is only for "go
		// panic" or "defer panic".
		panic(targetPanic{args[0]})

	case "recover":
		return doRecover(caller)

	case "ssa:wrapnilchk":
		recv := args[0]
		if recv.(*value) == nil {
			recvType := args[1]
			methodName := args[2]
			panic(targetPanic{rtErr(fmt.Sprintf("value method (%s).%s called using nil *%s pointer",
				recvType, methodName, recvType))})
		}
		return recv

	case "ssa:deferstack":
		return &caller.defers

	case "SliceData": // unsafe.SliceData(s) -> &s[0]; remembered for unsafe.String/Slice
		sl := args[0].([]value)
		if cap(sl) == 0 {
			return (*value)(nil)
		}
		full := sl[:cap(sl)]
		caller.i.sliceData[&full[0]] = full
		return &full[0]

	case "StringData": // unsafe.StringData(str): a fresh read-only copy of the bytes
		cells := append([]value{}, strCells(args[0])...)
		if len(cells) == 0 {
			return (*value)(nil)
		}
		caller.i.sliceData[&cells[0]] = cells
		return &cells[0]

	case "String": // unsafe.String(ptr, len)
		p := args[0].(*value)
		n := int(asInt64(caller.i.concretize(args[1])))
		if n == 0 {
			return ""
		}
		base, ok := caller.i.sliceData[p]
		if !ok {
			// &b[k] taken with ordinary indexing: find the slice among the
			// frame's values
			for _, v := range caller.env {
				if sl, isSl := v.([]value); isSl {
					full := sl[:cap(sl)]
					for k := range full {
						if &full[k] == p {
							base, ok = full[k:], true
							break
						}
					}
				}
				if ok {
					break
				}
			}
		}
		if !ok || n > len(base) {
			panic(engineError{"not encodable: unsafe.String on a pointer whose slice is unknown"})
		}
		return mkString(base[:n])

	case "Slice": // unsafe.Slice(ptr, len)
		p := args[0].(*value)
		n := int(asInt64(caller.i.concretize(args[1])))
		if p == nil {
			return []value(nil)
		}
		base, ok := caller.i.sliceData[p]
		if !ok || n > len(base) {
			panic(engineError{"not encodable: unsafe.Slice on a pointer not obtained from unsafe.SliceData/StringData"})
		}
		return base[:n:n]
	}

	panic("unknown built-in: " + fn.Name())
}

func (fr *frame) rangeIter(x value, t types.Type) iter {
	switch x := x.(type) {
	case *omap:
		it := &omapIter{m: x}
		if x != nil {
			it.ents = append(it.ents, x.ents...)
		}
		if fr.i.path != nil && fr.i.path.permuteMaps && len(it.ents) > 1 && len(it.ents) <= 4 {
			// Go leaves the iteration order unspecified: explore every order
			rest := it.ents
			var perm []*ment
			for len(rest) > 1 {
				k := fr.i.chooseInternal(len(rest))
				perm = append(perm, rest[k])
				rest = append(append([]*ment{}, rest[:k]...), rest[k+1:]...)
			}
			it.ents = append(perm, rest...)
		}
		return it
	case string:
		return &stringIter{Reader: strings.NewReader(x)}
	case symstr:
		return &symstrIter{fr: fr, s: x.b}
	}
	panic(fmt.Sprintf("cannot range over %T", x))
}

// symstrIter decodes runes of a symbolic string with the real
// unicode/utf8.DecodeRuneInString, executed symbolically.
type symstrIter struct {
	fr *frame
	s  []value
	i  int
}

func (it *symstrIter) next() tuple {
	if it.i >= len(it.s) {
		return tuple{false, nil, nil}
	}
	dec := it.fr.i.prog.ImportedPackage("unicode/utf8").Func("DecodeRuneInString")
	r := call(it.fr.i, it.fr, token.NoPos, dec, []value{mkString(it.s[it.i:])}).(tuple)
	k := it.i
	it.i += int(asInt64(it.fr.i.concretize(r[1])))
	return tuple{true, k, r[0]}
}

// appendCells appends with Go's aliasing behaviour (in place when capacity allows).
func appendCells(dst, src []value) []value {
	return append(dst, src...)
}

// appendMon is append under the write-set monitor: growth allocates memory
// owned by the call, appending in place writes the existing backing array.
func (fr *frame) appendMon(dst, src []value) []value {
	m := fr.i.mon
	if m == nil || len(src) == 0 {
		return append(dst, src...)
	}
	if len(dst)+len(src) > cap(dst) {
		nc := 2*cap(dst) + len(src)
		out := make([]value, len(dst), nc)
		copy(out, dst)
		m.ownSlice(out)
		return append(out, src...)
	}
	full := dst[:cap(dst)]
	fr.monitorStore(&full[len(dst)], "append in place")
	return append(dst, src...)
}

// widen widens a basic typed value x to the widest type of its
// category, one of:
//
//	bool, int64, uint64, float64, complex128, string.
//
// This is inefficient but reduces the size of the cross-product of
// cases we have to consider.
func widen(x value) value {
	switch y := x.(type) {
	case bool, int64, uint64, float64, complex128, string, unsafe.Pointer, uptr:
		return x
	case int:
		return int64(y)
	case int8:
		return int64(y)
	case int16:
		return int64(y)
	case int32:
		return int64(y)
	case uint:
		return uint64(y)
	case uint8:
		return uint64(y)
	case uint16:
		return uint64(y)
	case uint32:
		return uint64(y)
	case uintptr:
		return uint64(y)
	case float32:
		return float64(y)
	case complex64:
		return complex128(y)
	}
	panic(fmt.Sprintf("cannot widen %T", x))
}

// conv converts the value x of type t_src to type t_dst and returns
// the result.
// Possible cases are described with the ssa.Convert operator.
func conv(t_dst, t_src types.Type, x value) value {
	ut_src := t_src.Underlying()
	ut_dst := t_dst.Underlying()

	// Destination type is not an "untyped" type.
	if b, ok := ut_dst.(*types.Basic); ok && b.Info()&types.IsUntyped != 0 {
		panic("oops: conversion to 'untyped' type: " + b.String())
	}

	// Nor is it an interface type.
	if _, ok := ut_dst.(*types.Interface); ok {
		if _, ok := ut_src.(*types.Interface); ok {
			panic("oops: Convert should be ChangeInterface")
		} else {
			panic("oops: Convert should be MakeInterface")
		}
	}

	// Remaining conversions:
	//    + untyped string/number/bool constant to a specific
	//      representation.
	//    + conversions between non-complex numeric types.
	//    + conversions between complex numeric types.
	//    + integer/[]byte/[]rune -> string.
	//    + string -> []byte/[]rune.
	//
	// All are treated the same: first we extract the value to the
	// widest representation (int64, uint64, float64, complex128,
	// or string), then we convert it to the desired type.

	if fx, ok := x.(sfloat); ok {
		if d, ok := ut_dst.(*types.Basic); ok && d.Info()&types.IsInteger != 0 {
			w, _ := kindInfo(d.Kind())
			return norm(fx.T.tt.Resize(fx.T, w, false), d.Kind())
		}
		if d, ok := ut_dst.(*types.Basic); ok && d.Kind() == types.Float64 {
			return fx
		}
		panic(engineError{"not encodable: conversion of a symbolic float"})
	}
	if fx, ok := x.(sfp); ok {
		if d, ok := ut_dst.(*types.Basic); ok {
			if d.Info()&types.IsInteger != 0 {
				return fpToInt(fx, d.Kind())
			}
			if d.Kind() == types.Float64 {
				return fx
			}
		}
		panic(engineError{"not encodable: conversion of a symbolic float64 to " + t_dst.String()})
	}
	if sx, ok := x.(sv); ok {
		if d, ok := ut_dst.(*types.Basic); ok {
			return symConv(d.Kind(), sx)
		}
		panic(engineError{fmt.Sprintf("symbolic conversion %s -> %s", t_src, t_dst)})
	}
	if sx, ok := x.(symstr); ok {
		switch d := ut_dst.(type) {
		case *types.Basic:
			if d.Kind() == types.String {
				return sx
			}
		case *types.Slice:
			if d.Elem().Underlying().(*types.Basic).Kind() == types.Byte {
				out := make([]value, len(sx.b))
				copy(out, sx.b)
				if sx.b != nil && len(out) > 0 && sx.b[0] != nil {
					if s0, ok := sx.b[0].(sv); ok && s0.T.tt.i != nil {
						s0.T.tt.i.mon.ownSlice(out)
					}
				}
				return out
			}
			panic(engineError{"not encodable: []rune(symbolic string)"})
		}
		panic(engineError{fmt.Sprintf("symbolic string conversion to %s", t_dst)})
	}

	switch ut_src := ut_src.(type) {
	case *types.Pointer:
		switch ut_dst := ut_dst.(type) {
		case *types.Basic:
			// *value to unsafe.Pointer?
			if ut_dst.Kind() == types.UnsafePointer {
				return uptr{x.(*value)}
			}
		}

	case *types.Slice:
		// []byte or []rune -> string
		switch ut_src.Elem().Underlying().(*types.Basic).Kind() {
		case types.Byte:
			return mkString(x.([]value))

		case types.Rune:
			x := x.([]value)
			r := make([]rune, 0, len(x))
			for i := range x {
				c, ok := x[i].(rune)
				if !ok {
					panic(engineError{"not encodable: string([]rune) with symbolic runes"})
				}
				r = append(r, c)
			}
			return string(r)
		}

	case *types.Basic:
		if ut_src.Kind() == types.UnsafePointer {
			u := x.(uptr)
			switch d := ut_dst.(type) {
			case *types.Pointer:
				return u.p
			case *types.Basic:
				if d.Kind() == types.UnsafePointer {
					return u
				}
				if d.Kind() == types.Uintptr {
					return fakeAddr(u.p)
				}
			}
			panic(engineError{fmt.Sprintf("unsupported unsafe.Pointer conversion to %s", t_dst)})
		}
		x = widen(x)

		// integer -> string?
		if ut_src.Info()&types.IsInteger != 0 {
			if ut_dst, ok := ut_dst.(*types.Basic); ok && ut_dst.Kind() == types.String {
				return fmt.Sprintf("%c", x)
			}
		}

		// string -> []rune, []byte or string?
		if s, ok := x.(string); ok {
			switch ut_dst := ut_dst.(type) {
			case *types.Slice:
				var res []value
				switch ut_dst.Elem().Underlying().(*types.Basic).Kind() {
				case types.Rune:
					for _, r := range []rune(s) {
						res = append(res, r)
					}
					return res
				case types.Byte:
					for _, b := range []byte(s) {
						res = append(res, b)
					}
					return res
				}
			case *types.Basic:
				if ut_dst.Kind() == types.String {
					return x.(string)
				}
			}
			break // fail: no other conversions for string
		}

		// unsafe.Pointer -> *value
		if ut_src.Kind() == types.UnsafePointer {
			// TODO(adonovan): this is wrong and cannot
			// really be fixed with the current design.
			//
			// return (*value)(x.(unsafe.Pointer))
			// creates a new pointer of a different
			// type but the underlying interface value
			// knows its "true" type and so cannot be
			// meaningfully used through the new pointer.
			//
			// To make this work, the interpreter needs to
			// simulate the memory layout of a real
			// compiled implementation.
			//
			// To at least preserve type-safety, we'll
			// just return the zero value of the
			// destination type.
			return zero(t_dst)
		}

		// Conversions between complex numeric types?
		if ut_src.Info()&types.IsComplex != 0 {
			switch ut_dst.(*types.Basic).Kind() {
			case types.Complex64:
				return complex64(x.(complex128))
			case types.Complex128:
				return x.(complex128)
			}
			break // fail: no other conversions for complex
		}

		// Conversions between non-complex numeric types?
		if ut_src.Info()&types.IsNumeric != 0 {
			kind := ut_dst.(*types.Basic).Kind()
			switch x := x.(type) {
			case int64: // signed integer -> numeric?
				switch kind {
				case types.Int:
					return int(x)
				case types.Int8:
					return int8(x)
				case types.Int16:
					return int16(x)
				case types.Int32:
					return int32(x)
				case types.Int64:
					return int64(x)
				case types.Uint:
					return uint(x)
				case types.Uint8:
					return uint8(x)
				case types.Uint16:
					return uint16(x)
				case types.Uint32:
					return uint32(x)
				case types.Uint64:
					return uint64(x)
				case types.Uintptr:
					return uintptr(x)
				case types.Float32:
					return float32(x)
				case types.Float64:
					return float64(x)
				}

			case uint64: // unsigned integer -> numeric?
				switch kind {
				case types.Int:
					return int(x)
				case types.Int8:
					return int8(x)
				case types.Int16:
					return int16(x)
				case types.Int32:
					return int32(x)
				case types.Int64:
					return int64(x)
				case types.Uint:
					return uint(x)
				case types.Uint8:
					return uint8(x)
				case types.Uint16:
					return uint16(x)
				case types.Uint32:
					return uint32(x)
				case types.Uint64:
					return uint64(x)
				case types.Uintptr:
					return uintptr(x)
				case types.Float32:
					return float32(x)
				case types.Float64:
					return float64(x)
				}

			case float64: // floating point -> numeric?
				switch kind {
				case types.Int:
					return int(x)
				case types.Int8:
					return int8(x)
				case types.Int16:
					return int16(x)
				case types.Int32:
					return int32(x)
				case types.Int64:
					return int64(x)
				case types.Uint:
					return uint(x)
				case types.Uint8:
					return uint8(x)
				case types.Uint16:
					return uint16(x)
				case types.Uint32:
					return uint32(x)
				case types.Uint64:
					return uint64(x)
				case types.Uintptr:
					return uintptr(x)
				case types.Float32:
					return float32(x)
				case types.Float64:
					return float64(x)
				}
			}
		}
	}

	panic(fmt.Sprintf("unsupported conversion: %s  -> %s, dynamic type %T", t_src, t_dst, x))
}

// sliceToArrayPointer converts the value x of type slice to type t_dst
// a pointer to array and returns the result.
func sliceToArrayPointer(t_dst, t_src types.Type, x value) value {
	if _, ok := t_src.Underlying().(*types.Slice); ok {
		if ptr, ok := t_dst.Underlying().(*types.Pointer); ok {
			if arr, ok := ptr.Elem().Underlying().(*types.Array); ok {
				x := x.([]value)
				if arr.Len() > int64(len(x)) {
					panic(targetPanic{rtErr("cannot convert slice to array pointer: length too short")})
				}
				if x == nil {
					return zero(t_dst)
				}
				v := value(array(x[:arr.Len()]))
				return &v
			}
		}
	}

	panic(fmt.Sprintf("unsupported conversion: %s  -> %s, dynamic type %T", t_src, t_dst, x))
}

// checkInterface checks that the method set of x implements the
// interface itype.
// On success it returns "", on failure, an error message.
func checkInterface(i *interpreter, itype *types.Interface, x iface) string {
	if meth, _ := types.MissingMethod(x.t, itype, true); meth != nil {
		return fmt.Sprintf("interface conversion: %v is not %v: missing method %s",
			x.t, itype, meth.Name())
	}
	return "" // ok
}

func foldLeft(op func(value, value) value, args []value) value {
	x := args[0]
	for _, arg := range args[1:] {
		x = op(x, arg)
	}
	return x
}

func min(x, y value) value {
	switch x := x.(type) {
	case float32:
		return fmin(x, y.(float32))
	case float64:
		return fmin(x, y.(float64))
	}

	// return (y < x) ? y : x
	if c := binop(token.LSS, nil, y, x); c == true {
		return y
	} else if _, sym := c.(sv); sym {
		panic(engineError{"min() on symbolic operands"})
	}
	return x
}

func max(x, y value) value {
	switch x := x.(type) {
	case float32:
		return fmax(x, y.(float32))
	case float64:
		return fmax(x, y.(float64))
	}

	// return (y > x) ? y : x
	if c := binop(token.GTR, nil, y, x); c == true {
		return y
	} else if _, sym := c.(sv); sym {
		panic(engineError{"max() on symbolic operands"})
	}
	return x
}

// copied from $GOROOT/src/runtime/minmax.go

type floaty interface{ ~float32 | ~float64 }

func fmin[F floaty](x, y F) F {
	if y != y || y < x {
		return y
	}
	if x != x || x < y || x != 0 {
		return x
	}
	// x and y are both ±0
	// if either is -0, return -0; else return +0
	return forbits(x, y)
}

func fmax[F floaty](x, y F) F {
	if y != y || y > x {
		return y
	}
	if x != x || x > y || x != 0 {
		return x
	}
	// x and y are both ±0
	// if both are -0, return -0; else return +0
	return fandbits(x, y)
}

func forbits[F floaty](x, y F) F {
	switch unsafe.Sizeof(x) {
	case 4:
		*(*uint32)(unsafe.Pointer(&x)) |= *(*uint32)(unsafe.Pointer(&y))
	case 8:
		*(*uint64)(unsafe.Pointer(&x)) |= *(*uint64)(unsafe.Pointer(&y))
	}
	return x
}

func fandbits[F floaty](x, y F) F {
	switch unsafe.Sizeof(x) {
	case 4:
		*(*uint32)(unsafe.Pointer(&x)) &= *(*uint32)(unsafe.Pointer(&y))
	case 8:
		*(*uint64)(unsafe.Pointer(&x)) &= *(*uint64)(unsafe.Pointer(&y))
	}
	return x
}
