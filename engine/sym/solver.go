package sym

import (
	"bufio"
	"fmt"
	"io"
	"os/exec"
	"strconv"
	"strings"
	"time"
)

// Result of a satisfiability query.
type SatResult int

const (
	Unsat SatResult = iota
	Sat
	Unknown
)

func (r SatResult) String() string { return [...]string{"unsat", "sat", "unknown"}[r] }

// Solver is one long-lived SMT solver process fed over a pipe.
type Solver struct {
	Kind      string
	cmd       *exec.Cmd
	in        io.WriteCloser
	out       *bufio.Reader
	Queries   int
	Time      time.Duration
	timeoutMS int
	Errors    int
	LastErr   string
	IntMode   bool // integer encoding (mod-2^w made explicit) instead of bit-vectors
}

func solverArgv(kind string, timeoutMS int) []string {
	switch kind {
	case "z3":
		return []string{"z3", "-in", fmt.Sprintf("-t:%d", timeoutMS)}
	case "z3-new":
		return []string{"z3-new", "-in", fmt.Sprintf("-t:%d", timeoutMS)}
	case "cvc5":
		return []string{"cvc5", "--incremental", "--produce-models", "--lang=smt2",
			fmt.Sprintf("--tlimit-per=%d", timeoutMS)}
	}
	panic("unknown solver " + kind)
}

func NewSolver(kind string, timeoutMS int) (*Solver, error) {
	argv := solverArgv(kind, timeoutMS)
	cmd := exec.Command(argv[0], argv[1:]...)
	in, err := cmd.StdinPipe()
	if err != nil {
		return nil, err
	}
	outp, err := cmd.StdoutPipe()
	if err != nil {
		return nil, err
	}
	cmd.Stderr = cmd.Stdout
	if err := cmd.Start(); err != nil {
		return nil, err
	}
	s := &Solver{Kind: kind, cmd: cmd, in: in, out: bufio.NewReaderSize(outp, 1<<16), timeoutMS: timeoutMS}
	if kind == "cvc5" {
		io.WriteString(in, "(set-logic ALL)\n")
	}
	return s, nil
}

func (s *Solver) Close() {
	if s == nil || s.cmd == nil {
		return
	}
	s.in.Close()
	s.cmd.Process.Kill()
	s.cmd.Wait()
	s.cmd = nil
}

// readSexp reads one complete line-or-s-expression answer.
func (s *Solver) readAnswer() (string, error) {
	var sb strings.Builder
	depth := 0
	started := false
	for {
		line, err := s.out.ReadString('\n')
		if err != nil {
			return sb.String(), err
		}
		inStr := false
		for _, c := range line {
			switch {
			case c == '"':
				inStr = !inStr
			case inStr:
			case c == '(':
				depth++
			case c == ')':
				depth--
			}
		}
		if strings.TrimSpace(line) == "" && !started {
			continue
		}
		started = true
		sb.WriteString(line)
		if depth <= 0 {
			return strings.TrimSpace(sb.String()), nil
		}
	}
}

// Check decides the conjunction of asserts. With wantModel and a sat answer
// the values of all variables occurring in asserts are returned.
func (s *Solver) Check(asserts []*Term, wantModel bool) (SatResult, Model, string) {
	if s.IntMode {
		script, vars, err := smtScriptInt(asserts)
		if err != "" {
			s.Errors++
			s.LastErr = err
			return Unknown, nil, script
		}
		return s.CheckScript(script, vars, wantModel)
	}
	script, vars := smtScript(asserts)
	return s.CheckScript(script, vars, wantModel)
}

func (s *Solver) CheckScript(script string, vars []*Term, wantModel bool) (SatResult, Model, string) {
	t0 := time.Now()
	defer func() { s.Time += time.Since(t0); s.Queries++ }()
	var sb strings.Builder
	sb.WriteString("(push 1)\n")
	sb.WriteString(script)
	sb.WriteString("(check-sat)\n")
	if _, err := io.WriteString(s.in, sb.String()); err != nil {
		s.Errors++
		s.LastErr = err.Error()
		return Unknown, nil, script
	}
	ans, err := s.readAnswer()
	res := Unknown
	switch {
	case err != nil:
		s.Errors++
		s.LastErr = "solver died: " + err.Error()
	case ans == "sat":
		res = Sat
	case ans == "unsat":
		res = Unsat
	case ans == "unknown" || ans == "timeout":
		res = Unknown
	default:
		// (error ...) or anything unexpected: inconclusive
		s.Errors++
		s.LastErr = ans
		// drain: an error line may be followed by a verdict
		if strings.Contains(ans, "error") {
			if a2, e2 := s.readAnswer(); e2 == nil {
				_ = a2
			}
		}
	}
	var model Model
	if res == Sat && wantModel {
		model = Model{}
		if len(vars) > 0 {
			var q strings.Builder
			q.WriteString("(get-value (")
			for _, v := range vars {
				q.WriteString(v.name)
				q.WriteByte(' ')
			}
			q.WriteString("))\n")
			io.WriteString(s.in, q.String())
			reply, err := s.readAnswer()
			if err != nil || strings.Contains(reply, "error") {
				s.Errors++
				s.LastErr = "get-value: " + reply
				res = Unknown
			} else {
				parseModel(reply, model)
			}
		}
	}
	io.WriteString(s.in, "(pop 1)\n")
	return res, model, script
}

// parseModel parses "((x #x0a) (y true) (z #b1))".
func parseModel(reply string, m Model) {
	toks := strings.FieldsFunc(reply, func(r rune) bool { return r == '(' || r == ')' || r == ' ' || r == '\n' || r == '\t' })
	for k := 0; k+1 < len(toks); k += 2 {
		name, v := toks[k], toks[k+1]
		switch {
		case v == "true":
			m[name] = 1
		case v == "false":
			m[name] = 0
		case strings.HasPrefix(v, "#x"):
			u, _ := strconv.ParseUint(v[2:], 16, 64)
			m[name] = u
		case strings.HasPrefix(v, "#b"):
			u, _ := strconv.ParseUint(v[2:], 2, 64)
			m[name] = u
		case len(v) > 0 && v[0] >= '0' && v[0] <= '9':
			u, _ := strconv.ParseUint(v, 10, 64)
			m[name] = u
		case v == "_" && k+3 < len(toks) && strings.HasPrefix(toks[k+2], "bv"):
			// (_ bv10 32)
			u, _ := strconv.ParseUint(toks[k+2][2:], 10, 64)
			m[name] = u
			k += 2
		}
	}
}
