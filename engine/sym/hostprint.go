package sym

import "strconv"

func hostIsPrint(r rune) bool { return strconv.IsPrint(r) }
