package sym

import (
	"fmt"
	"go/token"
	"math"
	"go/types"
)

// sv is a symbolic scalar of Go basic kind K (Bool or an integer kind).
type sv struct {
	T *Term
	K types.BasicKind
}

// symstr is a string with concrete length whose bytes may be symbolic
// (each cell is uint8 or sv{K: Uint8}).
type symstr struct{ b []value }

func kindInfo(k types.BasicKind) (w int, signed bool) {
	switch k {
	case types.Bool, types.UntypedBool:
		return 0, false
	case types.Int8:
		return 8, true
	case types.Int16:
		return 16, true
	case types.Int32, types.UntypedRune:
		return 32, true
	case types.Int, types.Int64, types.UntypedInt:
		return 64, true
	case types.Uint8:
		return 8, false
	case types.Uint16:
		return 16, false
	case types.Uint32:
		return 32, false
	case types.Uint, types.Uint64, types.Uintptr:
		return 64, false
	}
	panic(engineError{fmt.Sprintf("kindInfo: kind %v has no bit-vector sort", k)})
}

// kindOf returns the basic kind of a concrete scalar value.
func kindOf(x value) (types.BasicKind, uint64, bool) {
	switch x := x.(type) {
	case bool:
		if x {
			return types.Bool, 1, true
		}
		return types.Bool, 0, true
	case int:
		return types.Int, uint64(x), true
	case int8:
		return types.Int8, uint64(x), true
	case int16:
		return types.Int16, uint64(x), true
	case int32:
		return types.Int32, uint64(x), true
	case int64:
		return types.Int64, uint64(x), true
	case uint:
		return types.Uint, uint64(x), true
	case uint8:
		return types.Uint8, uint64(x), true
	case uint16:
		return types.Uint16, uint64(x), true
	case uint32:
		return types.Uint32, uint64(x), true
	case uint64:
		return types.Uint64, x, true
	case uintptr:
		return types.Uintptr, uint64(x), true
	}
	return 0, 0, false
}

// mkConcrete builds the concrete interpreter value of kind k from bits v.
func mkConcrete(k types.BasicKind, v uint64) value {
	switch k {
	case types.Bool, types.UntypedBool:
		return v != 0
	case types.Int, types.UntypedInt:
		return int(v)
	case types.Int8:
		return int8(v)
	case types.Int16:
		return int16(v)
	case types.Int32, types.UntypedRune:
		return int32(v)
	case types.Int64:
		return int64(v)
	case types.Uint:
		return uint(v)
	case types.Uint8:
		return uint8(v)
	case types.Uint16:
		return uint16(v)
	case types.Uint32:
		return uint32(v)
	case types.Uint64:
		return v
	case types.Uintptr:
		return uintptr(v)
	}
	panic(engineError{fmt.Sprintf("mkConcrete: kind %v", k)})
}

// norm turns a constant term back into a concrete value.
func norm(t *Term, k types.BasicKind) value {
	if t.isConst() {
		return mkConcrete(k, t.val)
	}
	return sv{t, k}
}

func isSym(x value) bool {
	switch x.(type) {
	case sv, symstr:
		return true
	}
	return false
}

// lift returns the term of x (symbolic or concrete scalar) in table tt.
func lift(tt *termTable, x value) (*Term, types.BasicKind) {
	if s, ok := x.(sv); ok {
		return s.T, s.K
	}
	k, v, ok := kindOf(x)
	if !ok {
		panic(engineError{fmt.Sprintf("lift: %T is not a scalar", x)})
	}
	w, _ := kindInfo(k)
	return tt.Const(w, v), k
}

func tableOf(xs ...value) *termTable {
	for _, x := range xs {
		switch x := x.(type) {
		case sv:
			return x.T.tt
		case symstr:
			for _, c := range x.b {
				if s, ok := c.(sv); ok {
					return s.T.tt
				}
			}
		case []value:
			for _, c := range x {
				if s, ok := c.(sv); ok {
					return s.T.tt
				}
			}
		}
	}
	panic(engineError{"tableOf: no symbolic operand"})
}

// symEq returns the (possibly symbolic) truth of a == b for scalars.
func symEq(a, b value) value {
	tt := tableOf(a, b)
	x, _ := lift(tt, a)
	y, _ := lift(tt, b)
	return norm(tt.Eq(x, y), types.Bool)
}

func symBinop(op string, a, b value) value {
	tt := tableOf(a, b)
	x, _ := lift(tt, a)
	y, _ := lift(tt, b)
	return norm(tt.App(op, 0, x, y), types.Bool)
}

// symBytesEq: conjunction of cell equalities (equal lengths required).
func symBytesEq(a, b []value) value {
	tt := tableOf(a, b)
	var cs []*Term
	for k := range a {
		x, _ := lift(tt, a[k])
		y, _ := lift(tt, b[k])
		cs = append(cs, tt.Eq(x, y))
	}
	return norm(tt.And(cs...), types.Bool)
}

// symBytesLess: lexicographic a < b.
func symBytesLess(tt *termTable, a, b []value, orEq bool) *Term {
	if len(a) == 0 {
		if len(b) > 0 {
			return tt.Bool(true)
		}
		return tt.Bool(orEq)
	}
	if len(b) == 0 {
		return tt.Bool(false)
	}
	x, _ := lift(tt, a[0])
	y, _ := lift(tt, b[0])
	rest := symBytesLess(tt, a[1:], b[1:], orEq)
	return tt.Or(tt.App("bvult", 0, x, y), tt.And(tt.Eq(x, y), rest))
}

func strCells(x value) []value {
	switch x := x.(type) {
	case string:
		out := make([]value, len(x))
		for i := 0; i < len(x); i++ {
			out[i] = x[i]
		}
		return out
	case symstr:
		return x.b
	}
	panic(engineError{fmt.Sprintf("strCells: %T", x)})
}

// mkString normalises cells to a string value (native when all concrete).
func mkString(cells []value) value {
	for _, c := range cells {
		if _, ok := c.(uint8); !ok {
			cp := make([]value, len(cells))
			copy(cp, cells)
			return symstr{cp}
		}
	}
	out := make([]byte, len(cells))
	for i, c := range cells {
		out[i] = c.(uint8)
	}
	return string(out)
}

func isStr(x value) bool {
	switch x.(type) {
	case string, symstr:
		return true
	}
	return false
}

// symBinopTok implements binop when an operand is symbolic.
func symBinopTok(op token.Token, x, y value) value {
	if isStr(x) || isStr(y) {
		a, b := strCells(x), strCells(y)
		switch op {
		case token.ADD:
			return mkString(append(append([]value{}, a...), b...))
		case token.EQL, token.NEQ:
			var r value
			if len(a) != len(b) {
				r = false
			} else {
				r = symBytesEq(a, b)
			}
			if op == token.NEQ {
				return symNot(r)
			}
			return r
		case token.LSS, token.LEQ, token.GTR, token.GEQ:
			tt := tableOf(a, b)
			var t *Term
			switch op {
			case token.LSS:
				t = symBytesLess(tt, a, b, false)
			case token.LEQ:
				t = symBytesLess(tt, a, b, true)
			case token.GTR:
				t = symBytesLess(tt, b, a, false)
			case token.GEQ:
				t = symBytesLess(tt, b, a, true)
			}
			return norm(t, types.Bool)
		}
		panic(engineError{fmt.Sprintf("symbolic string op %s", op)})
	}
	tt := tableOf(x, y)
	a, ka := lift(tt, x)
	b, kb := lift(tt, y)
	w, signed := kindInfo(ka)
	if ka == types.Bool {
		switch op {
		case token.EQL:
			return norm(tt.Eq(a, b), types.Bool)
		case token.NEQ:
			return norm(tt.Not(tt.Eq(a, b)), types.Bool)
		case token.LAND, token.AND:
			return norm(tt.And(a, b), types.Bool)
		case token.LOR, token.OR:
			return norm(tt.Or(a, b), types.Bool)
		}
		panic(engineError{fmt.Sprintf("symbolic bool op %s", op)})
	}
	pick := func(s, u string) string {
		if signed {
			return s
		}
		return u
	}
	switch op {
	case token.ADD:
		return norm(tt.App("bvadd", w, a, b), ka)
	case token.SUB:
		return norm(tt.App("bvsub", w, a, b), ka)
	case token.MUL:
		return norm(tt.App("bvmul", w, a, b), ka)
	case token.QUO:
		return norm(tt.App(pick("bvsdiv", "bvudiv"), w, a, b), ka)
	case token.REM:
		return norm(tt.App(pick("bvsrem", "bvurem"), w, a, b), ka)
	case token.AND:
		return norm(tt.App("bvand", w, a, b), ka)
	case token.OR:
		return norm(tt.App("bvor", w, a, b), ka)
	case token.XOR:
		return norm(tt.App("bvxor", w, a, b), ka)
	case token.AND_NOT:
		return norm(tt.App("bvand", w, a, tt.App("bvnot", w, b)), ka)
	case token.SHL, token.SHR:
		// shift count: convert to the width of x; counts >= w saturate
		wb, _ := kindInfo(kb)
		var cnt *Term
		var big *Term // count does not fit: result is all-zero / sign fill
		if wb > w {
			cnt = tt.Extract(b, w-1, 0)
			big = tt.Not(tt.Eq(tt.Extract(b, wb-1, w), tt.Const(wb-w, 0)))
		} else {
			cnt = tt.ZExt(b, w)
			big = tt.Bool(false)
		}
		var r *Term
		switch {
		case op == token.SHL:
			r = tt.Ite(big, tt.Const(w, 0), tt.App("bvshl", w, a, cnt))
		case signed:
			r = tt.Ite(big, tt.App("bvashr", w, a, tt.Const(w, uint64(w-1))), tt.App("bvashr", w, a, cnt))
		default:
			r = tt.Ite(big, tt.Const(w, 0), tt.App("bvlshr", w, a, cnt))
		}
		return norm(r, ka)
	case token.EQL:
		return norm(tt.Eq(a, b), types.Bool)
	case token.NEQ:
		return norm(tt.Not(tt.Eq(a, b)), types.Bool)
	case token.LSS:
		return norm(tt.App(pick("bvslt", "bvult"), 0, a, b), types.Bool)
	case token.LEQ:
		return norm(tt.App(pick("bvsle", "bvule"), 0, a, b), types.Bool)
	case token.GTR:
		return norm(tt.App(pick("bvsgt", "bvugt"), 0, a, b), types.Bool)
	case token.GEQ:
		return norm(tt.App(pick("bvsge", "bvuge"), 0, a, b), types.Bool)
	}
	panic(engineError{fmt.Sprintf("symbolic binop %s", op)})
}

func symNot(x value) value {
	if b, ok := x.(bool); ok {
		return !b
	}
	s := x.(sv)
	return norm(s.T.tt.Not(s.T), types.Bool)
}

func symUnop(op token.Token, x sv) value {
	tt := x.T.tt
	w, _ := kindInfo(x.K)
	switch op {
	case token.SUB:
		return norm(tt.App("bvneg", w, x.T), x.K)
	case token.XOR:
		return norm(tt.App("bvnot", w, x.T), x.K)
	case token.NOT:
		return norm(tt.Not(x.T), types.Bool)
	}
	panic(engineError{fmt.Sprintf("symbolic unop %s", op)})
}

// sfloat is a float64 known to be exactly the non-negative integer T < 2^53
// (the only symbolic floating-point values the engine supports: DESIGN.md C20,
// "checked exactness rule").
type sfloat struct{ T *Term }

const two53 = uint64(1) << 53

// symConv converts symbolic scalar x to basic kind dst.
func symConv(dst types.BasicKind, x sv) value {
	if dst == types.Float64 {
		tt := x.T.tt
		_, signed := kindInfo(x.K)
		t := tt.Resize(x.T, 64, signed)
		// exact iff 0 <= x < 2^53 (as unsigned 64-bit: covers negatives too): the cheap integer form
		if tt.i.proves(tt.App("bvult", 0, t, tt.Const(64, two53))) {
			return sfloat{t}
		}
		// otherwise the IEEE-754 conversion (round to nearest even), decided in the solver's floating-point theory
		if signed {
			return sfp{tt.App("fp.from_sbv", wFP, t)}
		}
		return sfp{tt.App("fp.from_ubv", wFP, t)}
	}
	if dst == types.Float32 || dst == types.Complex64 || dst == types.Complex128 {
		panic(engineError{"not encodable: symbolic integer converted to floating point"})
	}
	if dst == types.String {
		// string(rune): the real utf8.AppendRune, executed symbolically
		i := x.T.tt.i
		f := i.prog.ImportedPackage("unicode/utf8").Func("AppendRune")
		r := symConv(types.Int32, x)
		out := call(i, i.cur, token.NoPos, f, []value{[]value(nil), r})
		return mkString(out.([]value))
	}
	_, signed := kindInfo(x.K)
	w, _ := kindInfo(dst)
	return norm(x.T.tt.Resize(x.T, w, signed), dst)
}

// sfloatMul multiplies an exact-integer symbolic float by a concrete float:
// as an integer product when that is provably exact, otherwise as an IEEE-754
// product in the solver's floating-point theory.
func sfloatMul(a sfloat, c float64) value {
	tt := a.T.tt
	if c == float64(uint64(c)) && c >= 0 && c < float64(two53) {
		k := uint64(c)
		if k == 0 {
			return float64(0)
		}
		lim := two53 / k
		if tt.i.proves(tt.App("bvult", 0, a.T, tt.Const(64, lim))) {
			return sfloat{tt.App("bvmul", 64, a.T, tt.Const(64, k))}
		}
	}
	return sfp{tt.App("fp.mul", wFP, fpTerm(tt, a), tt.FConst(c))}
}

// sfp is a symbolic float64: T has the floating-point sort.
type sfp struct{ T *Term }

func isFloatSym(x value) bool {
	switch x.(type) {
	case sfloat, sfp:
		return true
	}
	return false
}

// fpTerm lifts a float64 value (concrete, exact-integer symbolic, or symbolic) to a floating-point term.
func fpTerm(tt *termTable, x value) *Term {
	switch x := x.(type) {
	case float64:
		return tt.FConst(x)
	case sfloat:
		return tt.App("fp.from_ubv", wFP, x.T) // exact: T < 2^53
	case sfp:
		return x.T
	}
	panic(engineError{fmt.Sprintf("not encodable: %T used as a float64", x)})
}

func fpTable(x, y value) *termTable {
	for _, v := range []value{x, y} {
		switch v := v.(type) {
		case sfloat:
			return v.T.tt
		case sfp:
			return v.T.tt
		}
	}
	return nil
}

// fpBinop: float64 arithmetic and comparisons with IEEE-754 semantics.
func fpBinop(op token.Token, x, y value) value {
	tt := fpTable(x, y)
	a, b := fpTerm(tt, x), fpTerm(tt, y)
	switch op {
	case token.ADD:
		return sfp{tt.App("fp.add", wFP, a, b)}
	case token.SUB:
		return sfp{tt.App("fp.sub", wFP, a, b)}
	case token.MUL:
		return sfp{tt.App("fp.mul", wFP, a, b)}
	case token.QUO:
		return sfp{tt.App("fp.div", wFP, a, b)}
	case token.LSS:
		return norm(tt.App("fp.lt", 0, a, b), types.Bool)
	case token.LEQ:
		return norm(tt.App("fp.leq", 0, a, b), types.Bool)
	case token.GTR:
		return norm(tt.App("fp.lt", 0, b, a), types.Bool)
	case token.GEQ:
		return norm(tt.App("fp.leq", 0, b, a), types.Bool)
	case token.EQL:
		return norm(tt.App("fp.eq", 0, a, b), types.Bool)
	case token.NEQ:
		return norm(tt.Not(tt.App("fp.eq", 0, a, b)), types.Bool)
	}
	panic(engineError{fmt.Sprintf("not encodable: float64 operator %s on a symbolic value", op)})
}

// fpToInt converts a symbolic float64 to an integer kind (truncation toward
// zero). Go leaves the result implementation-defined when the value does not
// fit, so the conversion is only encoded where it provably fits.
func fpToInt(x sfp, dst types.BasicKind) value {
	tt := x.T.tt
	w, signed := kindInfo(dst)
	var inRange, t *Term
	if signed {
		lo := tt.FConst(-float64(uint64(1) << uint(w-1)))
		hi := tt.FConst(float64(uint64(1) << uint(w-1)))
		inRange = tt.And(tt.App("fp.leq", 0, lo, x.T), tt.App("fp.lt", 0, x.T, hi))
		t = tt.App("fp.to_sbv", 64, x.T)
	} else {
		hi := tt.FConst(float64(uint64(1)<<uint(w-1)) * 2)
		inRange = tt.And(tt.App("fp.leq", 0, tt.FConst(0), x.T), tt.App("fp.lt", 0, x.T, hi))
		t = tt.App("fp.to_ubv", 64, x.T)
	}
	if lo, hi, ok := fpInterval(x.T); ok {
		// decided by interval arithmetic on the host (IEEE operations are monotone, so corner values bound the result)
		lim := float64(uint64(1)<<uint(w-1)) * 2
		if !signed && lo >= 0 && hi < lim {
			return norm(tt.Resize(t, w, signed), dst)
		}
		if signed && lo >= -lim/2 && hi < lim/2 {
			return norm(tt.Resize(t, w, signed), dst)
		}
	}
	if !tt.i.proves(inRange) {
		panic(engineError{"not encodable: symbolic float64 -> integer conversion not provably in range (implementation-defined in Go)"})
	}
	return norm(tt.Resize(t, w, signed), dst)
}

// fpInterval bounds a floating-point term by evaluating it at the corners of
// its operands' intervals: conversions and the four rounded operations are
// monotone in each argument, so the extreme corner values bound the result.
func fpInterval(t *Term) (lo, hi float64, ok bool) {
	f := math.Float64frombits
	corners := func(op func(a, b float64) float64, a, b *Term) (float64, float64, bool) {
		al, ah, ok1 := fpInterval(a)
		bl, bh, ok2 := fpInterval(b)
		if !ok1 || !ok2 {
			return 0, 0, false
		}
		lo, hi := math.Inf(1), math.Inf(-1)
		for _, x := range []float64{al, ah} {
			for _, y := range []float64{bl, bh} {
				v := op(x, y)
				if math.IsNaN(v) || math.IsInf(v, 0) {
					return 0, 0, false
				}
				lo, hi = math.Min(lo, v), math.Max(hi, v)
			}
		}
		return lo, hi, true
	}
	switch t.op {
	case "const":
		v := f(t.val)
		return v, v, !math.IsNaN(v) && !math.IsInf(v, 0)
	case "fp.from_ubv":
		return float64(t.args[0].lo), float64(t.args[0].hi), true
	case "fp.from_sbv":
		if t.args[0].hi < 1<<63 {
			return float64(t.args[0].lo), float64(t.args[0].hi), true
		}
	case "fp.neg":
		if l, h, ok := fpInterval(t.args[0]); ok {
			return -h, -l, true
		}
	case "fp.add":
		return corners(func(a, b float64) float64 { return a + b }, t.args[0], t.args[1])
	case "fp.sub":
		return corners(func(a, b float64) float64 { return a - b }, t.args[0], t.args[1])
	case "fp.mul":
		return corners(func(a, b float64) float64 { return a * b }, t.args[0], t.args[1])
	case "fp.div":
		if bl, bh, ok := fpInterval(t.args[1]); ok && (bl > 0 || bh < 0) {
			return corners(func(a, b float64) float64 { return a / b }, t.args[0], t.args[1])
		}
	}
	return 0, 0, false
}
