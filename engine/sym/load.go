package sym

import (
	"fmt"
	"go/types"
	"os"
	"path/filepath"
	"strings"
	"sync"

	"golang.org/x/tools/go/packages"
	"golang.org/x/tools/go/ssa"
	"golang.org/x/tools/go/ssa/ssautil"
)

// Program is a loaded SSA program plus the package under test.
type Program struct {
	Prog  *ssa.Program
	Main  *ssa.Package
	Sizes types.Sizes
	Pkgs  []*packages.Package

	base     *interpreter
	baseOnce sync.Once

	reflectOnce    sync.Once
	reflectPackage *ssa.Package
	rtypeMethods   methodSet
	errorMethods   methodSet
}

// Load loads pattern from dir (the repo's current working tree), overlaying
// every *.go file of harnessDir/<pkgdir> into the package directory.
func Load(dir, pattern, harnessDir string) (*Program, error) {
	overlay := map[string][]byte{}
	pkgdir := filepath.Join(dir, pattern)
	sub := filepath.Join(harnessDir, filepath.Base(pkgdir))
	ents, _ := os.ReadDir(sub)
	if filepath.Base(pkgdir) != "slog" {
		// the intrinsic declarations are shared: re-package the slog copy
		if b, err := os.ReadFile(filepath.Join(harnessDir, "slog", "v_engine.go")); err == nil {
			b = []byte(strings.Replace(string(b), "package slog", "package "+filepath.Base(pkgdir), 1))
			overlay[filepath.Join(pkgdir, "zz_verif_v_engine.go")] = b
		}
	}
	for _, e := range ents {
		if strings.HasSuffix(e.Name(), ".go") && !strings.HasSuffix(e.Name(), "_test.go") && !strings.HasSuffix(e.Name(), "_native.go") {
			b, err := os.ReadFile(filepath.Join(sub, e.Name()))
			if err != nil {
				return nil, err
			}
			overlay[filepath.Join(pkgdir, "zz_verif_"+e.Name())] = b
		}
	}
	cfg := &packages.Config{
		Mode:    packages.LoadAllSyntax,
		Dir:     dir,
		Overlay: overlay,
		Env: append(os.Environ(), "GOFLAGS=-mod=mod", "GOWORK=off", "GOPROXY=off",
			"GOSUMDB=off", "GOTOOLCHAIN=local"),
		BuildFlags: []string{"-tags=verif"},
	}
	pkgs, err := packages.Load(cfg, pattern)
	if err != nil {
		return nil, err
	}
	if packages.PrintErrors(pkgs) > 0 {
		return nil, fmt.Errorf("package errors")
	}
	prog, spkgs := ssautil.AllPackages(pkgs, ssa.InstantiateGenerics|ssa.SanityCheckFunctions&0)
	prog.Build()
	return &Program{Prog: prog, Main: spkgs[0], Sizes: pkgs[0].TypesSizes, Pkgs: pkgs}, nil
}
