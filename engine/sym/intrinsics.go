package sym

import (
	"encoding/hex"
	"fmt"
	"go/token"
	"go/types"
)

// replayState feeds recorded intrinsic values to a concrete run of a harness
// under the engine (encoder validation: the same inputs are also run natively
// and the observations compared).
type replayState struct {
	items []ReplayItem
	pos   int
	out   []string
}

func (r *replayState) next(kind string) ReplayItem {
	if r.pos >= len(r.items) {
		return ReplayItem{Kind: kind}
	}
	it := r.items[r.pos]
	r.pos++
	return it
}

func (r *replayState) nextString() value {
	b, _ := hex.DecodeString(r.next("str").Hex)
	return string(b)
}

// Harness intrinsics (functions named v* in the package under test). Under
// the engine they produce symbolic values and record them as replay events;
// natively (replay) the harness support file reads the recorded values back.

type intrinsicFn func(fr *frame, args []value) value

var intrinsics map[string]intrinsicFn

func (i *interpreter) symScalar(k types.BasicKind, kind string) value {
	if rp := i.replay; rp != nil {
		it := rp.next("int")
		return mkConcrete(k, it.Int)
	}
	s := i.freshVar(k, "v")
	ps := i.ps()
	ps.events = append(ps.events, Event{Kind: kind, Term: s.T})
	return s
}

func init() {
	intrinsics = map[string]intrinsicFn{
		"vInt":    func(fr *frame, args []value) value { return fr.i.symScalar(types.Int64, "int") },
		"vInt32":  func(fr *frame, args []value) value { return fr.i.symScalar(types.Int32, "int") },
		"vUint64": func(fr *frame, args []value) value { return fr.i.symScalar(types.Uint64, "int") },
		"vByte":   func(fr *frame, args []value) value { return fr.i.symScalar(types.Uint8, "int") },
		"vBool":   func(fr *frame, args []value) value { return fr.i.symScalar(types.Bool, "int") },
		// vChoose(n): a selector in [0,n), enumerated by forking
		"vChoose": func(fr *frame, args []value) value {
			n := args[0].(int)
			if rp := fr.i.replay; rp != nil {
				return int(rp.next("int").Int)
			}
			c := fr.i.forkN(n)
			ps := fr.i.ps()
			ps.events = append(ps.events, Event{Kind: "int", Val: uint64(c)})
			return c
		},
		// vString(max): any string of length 0..max, any bytes
		"vString": func(fr *frame, args []value) value {
			max := args[0].(int)
			if rp := fr.i.replay; rp != nil {
				return rp.nextString()
			}
			ps := fr.i.ps()
			n := fr.i.forkN(max + 1)
			cells := make([]value, n)
			for k := range cells {
				cells[k] = fr.i.freshVar(types.Uint8, "s")
			}
			ps.events = append(ps.events, Event{Kind: "str", Cells: cells})
			return mkString(cells)
		},
		// vStringN(n): any string of length exactly n
		"vStringN": func(fr *frame, args []value) value {
			n := args[0].(int)
			if rp := fr.i.replay; rp != nil {
				return rp.nextString()
			}
			ps := fr.i.ps()
			cells := make([]value, n)
			for k := range cells {
				cells[k] = fr.i.freshVar(types.Uint8, "s")
			}
			ps.events = append(ps.events, Event{Kind: "str", Cells: cells})
			return mkString(cells)
		},
		"vAssume": func(fr *frame, args []value) value { fr.i.assume(args[0]); return nil },
		"vAssert": func(fr *frame, args []value) value {
			fr.i.assert(args[0], args[1].(string))
			return nil
		},
		"vCover": func(fr *frame, args []value) value {
			fr.i.ps().covers[args[0].(string)] = true
			return nil
		},
		// fork-free Boolean / selection operators for oracles
		"vAnd": func(fr *frame, args []value) value { return vAnd(args[0], args[1]) },
		"vOr": func(fr *frame, args []value) value {
			return symNot(vAnd(symNot(args[0]), symNot(args[1])))
		},
		"vNot": func(fr *frame, args []value) value { return symNot(args[0]) },
		"vIte": func(fr *frame, args []value) value {
			c, isSymC := args[0].(sv)
			if !isSymC {
				if args[0].(bool) {
					return args[1]
				}
				return args[2]
			}
			tt := c.T.tt
			a, ka := lift(tt, args[1])
			b, _ := lift(tt, args[2])
			return norm(tt.Ite(c.T, a, b), ka)
		},
		// vCatchExit(f): runs f; reports an os.Exit reached inside it
		"vCatchExit": func(fr *frame, args []value) (res value) {
			defer func() {
				if r := recover(); r != nil {
					if e, ok := r.(exitPanic); ok {
						res = tuple{int(e), true}
						return
					}
					panic(r)
				}
			}()
			call(fr.i, fr, token.NoPos, args[0], nil)
			return tuple{0, false}
		},
		"vPermuteMaps": func(fr *frame, args []value) value {
			fr.i.ps().permuteMaps = args[0].(bool)
			return nil
		},
		"vStubTimeFormat": func(fr *frame, args []value) value {
			fr.i.ps().stubTimeFormat = args[0].(bool)
			return nil
		},
		// vFile(id): a recording sink *os.File; vFileData(id): what was written
		"vFile": func(fr *frame, args []value) value {
			t := fr.i.prog.ImportedPackage("os").Type("File").Type()
			v := zero(t)
			fr.i.files[&v] = args[0].(int)
			return &v
		},
		"vFileData": func(fr *frame, args []value) value {
			var cells []value
			for _, w := range fr.i.fileData[args[0].(int)] {
				cells = append(cells, w...)
			}
			return mkString(cells)
		},
		"vFileWrites": func(fr *frame, args []value) value { return len(fr.i.fileData[args[0].(int)]) },
		"vMonitorWrites": func(fr *frame, args []value) value {
			if args[0].(bool) {
				fr.i.mon = newWriteMon()
			} else {
				fr.i.mon = nil
			}
			return nil
		},
		"vSame": func(fr *frame, args []value) value {
			key, ok1 := concreteGoString(args[0])
			val, ok2 := concreteGoString(args[1])
			if !ok1 || !ok2 {
				panic(engineError{"vSame needs concrete strings"})
			}
			if rp := fr.i.replay; rp != nil {
				rp.out = append(rp.out, fmt.Sprintf("VSAME %q %q", key, val))
				return nil
			}
			fr.i.same(key, val)
			return nil
		},
		"vKnown": func(fr *frame, args []value) value {
			fr.i.ps().known = args[0].(string)
			return nil
		},
		"vParam": func(fr *frame, args []value) value {
			if v, ok := fr.i.w.cfg.Params[args[0].(string)]; ok {
				return v
			}
			return args[1]
		},
		"vConcrete": func(fr *frame, args []value) value { return fr.i.concretize(args[0]) },
		"vIsEngine": func(fr *frame, args []value) value { return true },
		// vOut records an observed output string for the evidence samples
		"vOut": func(fr *frame, args []value) value {
			if rp := fr.i.replay; rp != nil {
				rp.out = append(rp.out, fmt.Sprintf("VOUT %q", args[0]))
			}
			ps := fr.i.ps()
			if len(ps.outputs) < 8 {
				ps.outputs = append(ps.outputs, toString(args[0]))
			}
			return nil
		},
	}
}

// concreteGoString: the Go string held by a string value whose bytes are all concrete.
func concreteGoString(v value) (string, bool) {
	switch v := v.(type) {
	case string:
		return v, true
	case symstr:
		b := make([]byte, len(v.b))
		for k, c := range v.b {
			switch c := c.(type) {
			case uint8:
				b[k] = c
			case sv:
				if !c.T.isConst() {
					return "", false
				}
				b[k] = byte(c.T.val)
			default:
				return "", false
			}
		}
		return string(b), true
	}
	return "", false
}
