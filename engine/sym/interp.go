// Copyright 2013 The Go Authors. All rights reserved.
// Use of this source code is governed by a BSD-style
// license that can be found in the LICENSE file.

// Package ssa/interp defines an interpreter for the SSA
// representation of Go programs.
//
// This interpreter is provided as an adjunct for testing the SSA
// construction algorithm.  Its purpose is to provide a minimal
// metacircular implementation of the dynamic semantics of each SSA
// instruction.  It is not, and will never be, a production-quality Go
// interpreter.
//
// The following is a partial list of Go features that are currently
// unsupported or incomplete in the interpreter.
//
// * Unsafe operations, including all uses of unsafe.Pointer, are
// impossible to support given the "boxed" value representation we
// have chosen.
//
// * The reflect package is only partially implemented.
//
// * The "testing" package is no longer supported because it
// depends on low-level details that change too often.
//
// * "sync/atomic" operations are not atomic due to the "boxed" value
// representation: it is not possible to read, modify and write an
// interface value atomically. As a consequence, Mutexes are currently
// broken.
//
// * recover is only partially implemented.  Also, the interpreter
// makes no attempt to distinguish target panics from interpreter
// crashes.
//
// * the sizes of the int, uint and uintptr types in the target
// program are assumed to be the same as those of the interpreter
// itself.
//
// * all values occupy space, even those of types defined by the spec
// to have zero size, e.g. struct{}.  This can cause asymptotic
// performance degradation.
//
// * os.Exit is implemented using panic, causing deferred functions to
// run.
package sym

import (
	"fmt"
	"go/token"
	"go/types"
	"log"
	"os"
	"reflect"
	"runtime"
	"slices"
	"strings"
	"sync/atomic"
	_ "unsafe"

	"golang.org/x/tools/go/ssa"
)

type continuation int

const (
	kNext continuation = iota
	kReturn
	kJump
)

// Mode is a bitmask of options affecting the interpreter.
type Mode uint

const (
	DisableRecover Mode = 1 << iota // Disable recover() in target programs; show interpreter crash instead.
	EnableTracing                   // Print a trace of all instructions as they are interpreted.
)

type methodSet map[string]*ssa.Function

// State shared between all interpreted goroutines.
type interpreter struct {
	osArgs             []value                // the value of os.Args
	prog               *ssa.Program           // the SSA program
	globals            map[*ssa.Global]*value // addresses of global variables (immutable)
	mode               Mode                   // interpreter options
	reflectPackage     *ssa.Package           // the fake reflect package
	errorMethods       methodSet              // the method set of reflect.error, which implements the error interface.
	rtypeMethods       methodSet              // the method set of rtype, which implements the reflect.Type interface.
	runtimeErrorString types.Type             // the runtime.errorString type
	sizes              types.Sizes            // the effective type-sizing function
	goroutines         int32                  // atomically updated
	cur                *frame                 // innermost frame (single goroutine)
	pools              map[*value][]value     // sync.Pool model: LIFO per pool
	env                EnvConfig
	pcs                []pcInfo
	frames             map[*value][]uintptr
	base               *interpreter
	path               *pathState
	w                  *worker
	maxSteps           int64
	steps              int64
	inHarness          bool
	locIDs             map[*value]int
	rndNames           int
	mon                *writeMon
	replay             *replayState
	sliceData          map[*value][]value
	files              map[*value]int
	fileData           map[int][][]value
	funcsRun           map[string]int
	stubHits           map[string]int
}

type ssaFunc = ssa.Function

var initTrace = os.Getenv("GOSYM_INITTRACE") != ""

var stepProf map[string]int

func init() {
	if os.Getenv("GOSYM_STEPPROF") != "" {
		stepProf = map[string]int{}
	}
}

// DumpStepProf prints the init-time step profile.
func DumpStepProf() {
	type kv struct {
		k string
		v int
	}
	var xs []kv
	for k, v := range stepProf {
		xs = append(xs, kv{k, v})
	}
	slices.SortFunc(xs, func(a, b kv) int { return b.v - a.v })
	for i, x := range xs {
		if i > 25 {
			break
		}
		fmt.Fprintf(os.Stderr, "PROF %8d %s\n", x.v, x.k)
	}
}

// setCell is the single choke point for stores done by stubs.
func (i *interpreter) setCell(p *value, v value) { *p = v }

func (i *interpreter) dumpStack() {
	for fr := i.cur; fr != nil; fr = fr.caller {
		pos := ""
		if fr.curInstr != nil {
			pos = i.prog.Fset.Position(fr.curInstr.Pos()).String()
		}
		fmt.Fprintf(os.Stderr, "#  in %s %s\n", fr.fn, pos)
	}
}

type deferred struct {
	fn    value
	args  []value
	instr *ssa.Defer
	tail  *deferred
}

type frame struct {
	i                *interpreter
	caller           *frame
	fn               *ssa.Function
	block, prevBlock *ssa.BasicBlock
	env              map[ssa.Value]value // dynamic values of SSA variables
	locals           []value
	defers           *deferred
	result           value
	panicking        bool
	panic            interface{}
	phitemps         []value // temporaries for parallel phi assignment
	curInstr         ssa.Instruction
}

func (fr *frame) get(key ssa.Value) value {
	switch key := key.(type) {
	case nil:
		// Hack; simplifies handling of optional attributes
		// such as ssa.Slice.{Low,High}.
		return nil
	case *ssa.Function, *ssa.Builtin:
		return key
	case *ssa.Const:
		return constValue(key)
	case *ssa.Global:
		return fr.i.globalCell(key)
	}
	if r, ok := fr.env[key]; ok {
		return r
	}
	panic(fmt.Sprintf("get: no value for %T: %v", key, key.Name()))
}

// runDefer runs a deferred call d.
// It always returns normally, but may set or clear fr.panic.
func (fr *frame) runDefer(d *deferred) {
	if fr.i.mode&EnableTracing != 0 {
		fmt.Fprintf(os.Stderr, "%s: invoking deferred function call\n",
			fr.i.prog.Fset.Position(d.instr.Pos()))
	}
	var ok bool
	defer func() {
		if !ok {
			// Deferred call created a new state of panic.
			r := recover()
			if _, isT := r.(targetPanic); !isT {
				panic(r)
			}
			fr.panicking = true
			fr.panic = r
		}
	}()
	call(fr.i, fr, d.instr.Pos(), d.fn, d.args)
	ok = true
}

// runDefers executes fr's deferred function calls in LIFO order.
//
// On entry, fr.panicking indicates a state of panic; if
// true, fr.panic contains the panic value.
//
// On completion, if a deferred call started a panic, or if no
// deferred call recovered from a previous state of panic, then
// runDefers itself panics after the last deferred call has run.
//
// If there was no initial state of panic, or it was recovered from,
// runDefers returns normally.
func (fr *frame) runDefers() {
	for d := fr.defers; d != nil; d = d.tail {
		fr.runDefer(d)
	}
	fr.defers = nil
	if fr.panicking {
		panic(fr.panic) // new panic, or still panicking
	}
}

// lookupMethod returns the method set for type typ, which may be one
// of the interpreter's fake types.
func lookupMethod(i *interpreter, typ types.Type, meth *types.Func) *ssa.Function {
	switch typ {
	case rtypeType:
		return i.rtypeMethods[meth.Id()]
	case errorType:
		return i.errorMethods[meth.Id()]
	}
	return i.prog.LookupMethod(typ, meth.Pkg(), meth.Name())
}

// visitInstr interprets a single ssa.Instruction within the activation
// record frame.  It returns a continuation value indicating where to
// read the next instruction from.
func visitInstr(fr *frame, instr ssa.Instruction) continuation {
	switch instr := instr.(type) {
	case *ssa.DebugRef:
		// no-op

	case *ssa.UnOp:
		fr.env[instr] = unop(instr, fr.get(instr.X))

	case *ssa.BinOp:
		x, y := fr.get(instr.X), fr.get(instr.Y)
		if ys, ok := y.(sv); ok && (instr.Op == token.QUO || instr.Op == token.REM) {
			w, _ := kindInfo(ys.K)
			if fr.i.truth(symEq(y, mkConcrete(ys.K, 0))) {
				_ = w
				panic(targetPanic{rtErr("integer divide by zero")})
			}
		}
		fr.env[instr] = binop(instr.Op, instr.X.Type(), x, y)

	case *ssa.Call:
		fn, args := prepareCall(fr, &instr.Call)
		fr.env[instr] = call(fr.i, fr, instr.Pos(), fn, args)

	case *ssa.ChangeInterface:
		fr.env[instr] = fr.get(instr.X)

	case *ssa.ChangeType:
		fr.env[instr] = fr.get(instr.X) // (can't fail)

	case *ssa.Convert:
		r := conv(instr.Type(), instr.X.Type(), fr.get(instr.X))
		if m := fr.i.mon; m != nil {
			if sl, ok := r.([]value); ok {
				m.ownSlice(sl) // string -> []byte / []rune allocates
			}
		}
		fr.env[instr] = r

	case *ssa.SliceToArrayPointer:
		fr.env[instr] = sliceToArrayPointer(instr.Type(), instr.X.Type(), fr.get(instr.X))

	case *ssa.MakeInterface:
		fr.env[instr] = iface{t: instr.X.Type(), v: fr.get(instr.X)}

	case *ssa.Extract:
		fr.env[instr] = fr.get(instr.Tuple).(tuple)[instr.Index]

	case *ssa.Slice:
		fr.env[instr] = fr.slice(fr.get(instr.X), fr.get(instr.Low), fr.get(instr.High), fr.get(instr.Max))

	case *ssa.Return:
		switch len(instr.Results) {
		case 0:
		case 1:
			fr.result = fr.get(instr.Results[0])
		default:
			var res []value
			for _, r := range instr.Results {
				res = append(res, fr.get(r))
			}
			fr.result = tuple(res)
		}
		fr.block = nil
		return kReturn

	case *ssa.RunDefers:
		fr.runDefers()

	case *ssa.Panic:
		panic(targetPanic{fr.get(instr.X)})

	case *ssa.Send:
		fr.get(instr.Chan).(chan value) <- fr.get(instr.X)

	case *ssa.Store:
		addr := fr.get(instr.Addr).(*value)
		if addr == nil {
			panic(targetPanic{rtErr("invalid memory address or nil pointer dereference")})
		}
		if fr.i.mon != nil {
			fr.monitorStore(addr, "store")
		}
		store(mustDeref(instr.Addr.Type()), addr, fr.get(instr.Val))

	case *ssa.If:
		succ := 1
		if fr.i.truth(fr.get(instr.Cond)) {
			succ = 0
		}
		fr.prevBlock, fr.block = fr.block, fr.block.Succs[succ]
		return kJump

	case *ssa.Jump:
		fr.prevBlock, fr.block = fr.block, fr.block.Succs[0]
		return kJump

	case *ssa.Defer:
		fn, args := prepareCall(fr, &instr.Call)
		defers := &fr.defers
		if into := fr.get(instr.DeferStack); into != nil {
			defers = into.(**deferred)
		}
		*defers = &deferred{
			fn:    fn,
			args:  args,
			instr: instr,
			tail:  *defers,
		}

	case *ssa.Go:
		fn, args := prepareCall(fr, &instr.Call)
		atomic.AddInt32(&fr.i.goroutines, 1)
		go func() {
			call(fr.i, nil, instr.Pos(), fn, args)
			atomic.AddInt32(&fr.i.goroutines, -1)
		}()

	case *ssa.MakeChan:
		fr.env[instr] = make(chan value, asInt64(fr.get(instr.Size)))

	case *ssa.Alloc:
		var addr *value
		if instr.Heap {
			// new
			addr = new(value)
			fr.env[instr] = addr
		} else {
			// local
			addr = fr.env[instr].(*value)
		}
		*addr = zero(mustDeref(instr.Type()))
		if m := fr.i.mon; m != nil {
			m.cells[addr] = true
			m.ownValue(*addr, 0)
		}

	case *ssa.MakeSlice:
		ln, cp := fr.get(instr.Len), fr.get(instr.Cap)
		if isSym(ln) || isSym(cp) {
			ln, cp = toIntV(ln), toIntV(cp)
			okc := vAnd(binop(token.LEQ, nil, int(0), ln), binop(token.LEQ, nil, ln, cp))
			if !fr.i.truth(okc) {
				panic(targetPanic{rtErr("makeslice: len out of range")})
			}
			ln, cp = fr.i.concretize(ln), fr.i.concretize(cp)
		}
		n, c := asInt64(ln), asInt64(cp)
		if n < 0 || c < n {
			panic(targetPanic{rtErr("makeslice: len out of range")})
		}
		if c > 1<<24 {
			panic(engineError{fmt.Sprintf("make: slice of %d elements is beyond the engine's memory bound", c)})
		}
		slice := make([]value, c)
		tElt := instr.Type().Underlying().(*types.Slice).Elem()
		for i := range slice {
			slice[i] = zero(tElt)
		}
		fr.i.mon.ownSlice(slice)
		fr.env[instr] = slice[:n]

	case *ssa.MakeMap:
		var reserve int64
		if instr.Reserve != nil {
			reserve = asInt64(fr.get(instr.Reserve))
		}
		if !fitsInt(reserve, fr.i.sizes) {
			panic(fmt.Sprintf("ssa.MakeMap.Reserve value %d does not fit in int", reserve))
		}
		mm := makeMap(instr.Type().Underlying().(*types.Map).Key(), reserve)
		if mon := fr.i.mon; mon != nil {
			mon.maps[mm.(*omap)] = true
		}
		fr.env[instr] = mm

	case *ssa.Range:
		fr.env[instr] = fr.rangeIter(fr.get(instr.X), instr.X.Type())

	case *ssa.Next:
		fr.env[instr] = fr.get(instr.Iter).(iter).next()

	case *ssa.FieldAddr:
		p := fr.get(instr.X).(*value)
		if p == nil {
			panic(targetPanic{rtErr("invalid memory address or nil pointer dereference")})
		}
		fr.env[instr] = &(*p).(structure)[instr.Field]

	case *ssa.Field:
		fr.env[instr] = fr.get(instr.X).(structure)[instr.Field]

	case *ssa.IndexAddr:
		x := fr.get(instr.X)
		idx := fr.get(instr.Index)
		if _, symIdx := idx.(sv); symIdx && readOnlyAddr(instr) {
			// a symbolic index into a table that is only read: the element
			// is an if-then-else chain held in a temporary cell (no fork)
			var coll value = x
			if p, ok := x.(*value); ok && p != nil {
				coll = *p
			}
			if sl, ok := coll.([]value); ok {
				coll = array(sl)
			}
			if v, ok := fr.indexIte(coll, idx); ok {
				cell := v
				fr.env[instr] = &cell
				break
			}
		}
		switch x := x.(type) {
		case []value:
			fr.env[instr] = &x[fr.index(idx, len(x))]
		case *value: // *array
			if x == nil {
				panic(targetPanic{rtErr("invalid memory address or nil pointer dereference")})
			}
			a := (*x).(array)
			fr.env[instr] = &a[fr.index(idx, len(a))]
		default:
			panic(fmt.Sprintf("unexpected x type in IndexAddr: %T", x))
		}

	case *ssa.Index:
		x := fr.get(instr.X)
		idx := fr.get(instr.Index)

		if _, symIdx := idx.(sv); symIdx {
			if v, ok := fr.indexIte(x, idx); ok {
				fr.env[instr] = v
				break
			}
		}
		switch x := x.(type) {
		case array:
			fr.env[instr] = x[fr.index(idx, len(x))]
		case string:
			fr.env[instr] = x[fr.index(idx, len(x))]
		case symstr:
			fr.env[instr] = x.b[fr.index(idx, len(x.b))]
		default:
			panic(fmt.Sprintf("unexpected x type in Index: %T", x))
		}

	case *ssa.Lookup:
		fr.env[instr] = fr.lookup(instr, fr.get(instr.X), fr.get(instr.Index))

	case *ssa.MapUpdate:
		m := fr.get(instr.Map)
		key := fr.get(instr.Key)
		v := fr.get(instr.Value)
		switch m := m.(type) {
		case *omap:
			if m == nil {
				panic(targetPanic{rtErr("assignment to entry in nil map")})
			}
			if mon := fr.i.mon; mon != nil && !mon.maps[m] && !harnessFrame(fr) {
				fr.monitorViolation("map update")
			}
			m.insert(fr.i, key, v)
		default:
			panic(fmt.Sprintf("illegal map type: %T", m))
		}

	case *ssa.TypeAssert:
		fr.env[instr] = typeAssert(fr.i, instr, fr.get(instr.X).(iface))

	case *ssa.MakeClosure:
		var bindings []value
		for _, binding := range instr.Bindings {
			bindings = append(bindings, fr.get(binding))
		}
		fr.env[instr] = &closure{instr.Fn.(*ssa.Function), bindings}

	case *ssa.Phi:
		log.Fatal("unreachable") // phis are processed at block entry

	case *ssa.Select:
		var cases []reflect.SelectCase
		if !instr.Blocking {
			cases = append(cases, reflect.SelectCase{
				Dir: reflect.SelectDefault,
			})
		}
		for _, state := range instr.States {
			var dir reflect.SelectDir
			if state.Dir == types.RecvOnly {
				dir = reflect.SelectRecv
			} else {
				dir = reflect.SelectSend
			}
			var send reflect.Value
			if state.Send != nil {
				send = reflect.ValueOf(fr.get(state.Send))
			}
			cases = append(cases, reflect.SelectCase{
				Dir:  dir,
				Chan: reflect.ValueOf(fr.get(state.Chan)),
				Send: send,
			})
		}
		chosen, recv, recvOk := reflect.Select(cases)
		if !instr.Blocking {
			chosen-- // default case should have index -1.
		}
		r := tuple{chosen, recvOk}
		for i, st := range instr.States {
			if st.Dir == types.RecvOnly {
				var v value
				if i == chosen && recvOk {
					// No need to copy since send makes an unaliased copy.
					v = recv.Interface().(value)
				} else {
					v = zero(st.Chan.Type().Underlying().(*types.Chan).Elem())
				}
				r = append(r, v)
			}
		}
		fr.env[instr] = r

	default:
		panic(fmt.Sprintf("unexpected instruction: %T", instr))
	}

	// if val, ok := instr.(ssa.Value); ok {
	// 	fmt.Println(toString(fr.env[val])) // debugging
	// }

	return kNext
}

// readOnlyAddr reports whether the address computed by instr is only used
// to load from (directly or through field addresses).
func readOnlyAddr(instr ssa.Value) bool {
	refs := instr.Referrers()
	if refs == nil {
		return false
	}
	for _, r := range *refs {
		switch r := r.(type) {
		case *ssa.UnOp:
			if r.Op != token.MUL {
				return false
			}
		case *ssa.FieldAddr:
			if !readOnlyAddr(r) {
				return false
			}
		case *ssa.DebugRef:
		default:
			return false
		}
	}
	return true
}

// prepareCall determines the function value and argument values for a
// function call in a Call, Go or Defer instruction, performing
// interface method lookup if needed.
func prepareCall(fr *frame, call *ssa.CallCommon) (fn value, args []value) {
	v := fr.get(call.Value)
	if call.Method == nil {
		// Function call.
		fn = v
	} else {
		// Interface method invocation.
		recv := v.(iface)
		if recv.t == nil {
			panic(targetPanic{rtErr("invalid memory address or nil pointer dereference (method invoked on nil interface)")})
		}
		if f := lookupMethod(fr.i, recv.t, call.Method); f == nil {
			// Unreachable in well-typed programs.
			panic(fmt.Sprintf("method set for dynamic type %v does not contain %s", recv.t, call.Method))
		} else {
			fn = f
		}
		args = append(args, recv.v)
	}
	for _, arg := range call.Args {
		args = append(args, fr.get(arg))
	}
	return
}

// call interprets a call to a function (function, builtin or closure)
// fn with arguments args, returning its result.
// callpos is the position of the callsite.
func call(i *interpreter, caller *frame, callpos token.Pos, fn value, args []value) value {
	switch fn := fn.(type) {
	case *ssa.Function:
		if fn == nil {
			panic(targetPanic{rtErr("invalid memory address or nil pointer dereference (call of nil function)")})
		}
		return callSSA(i, caller, callpos, fn, args, nil)
	case *closure:
		return callSSA(i, caller, callpos, fn.Fn, args, fn.Env)
	case *ssa.Builtin:
		return callBuiltin(caller, callpos, fn, args)
	}
	panic(fmt.Sprintf("cannot call %T", fn))
}

func loc(fset *token.FileSet, pos token.Pos) string {
	if pos == token.NoPos {
		return ""
	}
	return " at " + fset.Position(pos).String()
}

// callSSA interprets a call to function fn with arguments args,
// and lexical environment env, returning its result.
// callpos is the position of the callsite.
func callSSA(i *interpreter, caller *frame, callpos token.Pos, fn *ssa.Function, args []value, env []value) value {
	if i.mode&EnableTracing != 0 {
		fset := fn.Prog.Fset
		// TODO(adonovan): fix: loc() lies for external functions.
		fmt.Fprintf(os.Stderr, "Entering %s%s.\n", fn, loc(fset, fn.Pos()))
		suffix := ""
		if caller != nil {
			suffix = ", resuming " + caller.fn.String() + loc(fset, callpos)
		}
		defer fmt.Fprintf(os.Stderr, "Leaving %s%s.\n", fn, suffix)
	}
	fr := &frame{
		i:      i,
		caller: caller, // for panic/recover
		fn:     fn,
	}
	if fn.Parent() == nil {
		if isPkgInit(fn) && initDenied(fn.Pkg.Pkg.Path()) {
			return nil
		}
		name := fn.String()
		if fn.Pkg != nil && strings.HasPrefix(fn.Name(), "v") {
			if in := intrinsics[fn.Name()]; in != nil && isHarnessPkg(fn.Pkg.Pkg.Path()) {
				return in(fr, args)
			}
		}
		if ext := externals[name]; ext != nil {
			r := ext(fr, args)
			if _, real := r.(runRealCode); !real {
				if i.inHarness {
					i.stubHits[name]++
				}
				return r
			}
		}
		if fn.Blocks == nil {
			panic(engineError{"not encodable: no code for function " + name})
		}
	}
	if initTrace && isPkgInit(fn) {
		s0 := i.steps
		defer func() { fmt.Fprintf(os.Stderr, "INIT %s %d\n", fn.Pkg.Pkg.Path(), i.steps-s0) }()
	}
	if i.inHarness && fn.Pkg != nil && isRepoPkg(fn.Pkg.Pkg.Path()) {
		i.funcsRun[fn.String()]++
	}

	// generic function body?
	if fn.TypeParams().Len() > 0 && len(fn.TypeArgs()) == 0 {
		panic("interp requires ssa.BuilderMode to include InstantiateGenerics to execute generics")
	}

	fr.env = make(map[ssa.Value]value)
	fr.block = fn.Blocks[0]
	fr.locals = make([]value, len(fn.Locals))
	for i, l := range fn.Locals {
		fr.locals[i] = zero(mustDeref(l.Type()))
		fr.env[l] = &fr.locals[i]
	}
	if m := i.mon; m != nil && len(fr.locals) > 0 {
		m.ownSlice(fr.locals)
		for _, l := range fr.locals {
			m.ownValue(l, 0)
		}
	}
	for i, p := range fn.Params {
		fr.env[p] = args[i]
	}
	for i, fv := range fn.FreeVars {
		fr.env[fv] = env[i]
	}
	for fr.block != nil {
		runFrame(fr)
	}
	// Destroy the locals to avoid accidental use after return.
	for i := range fn.Locals {
		fr.locals[i] = bad{}
	}
	return fr.result
}

// runFrame executes SSA instructions starting at fr.block and
// continuing until a return, a panic, or a recovered panic.
//
// After a panic, runFrame panics.
//
// After a normal return, fr.result contains the result of the call
// and fr.block is nil.
//
// A recovered panic in a function without named return parameters
// (NRPs) becomes a normal return of the zero value of the function's
// result type.
//
// After a recovered panic in a function with NRPs, fr.result is
// undefined and fr.block contains the block at which to resume
// control.
func runFrame(fr *frame) {
	defer func() {
		if fr.block == nil {
			return // normal return
		}
		if fr.i.mode&DisableRecover != 0 {
			return // let interpreter crash
		}
		r := recover()
		if _, ok := r.(targetPanic); !ok {
			// not a panic of the target program: path abort, os.Exit, or an
			// engine failure. Never visible to the target's defers/recover.
			switch r.(type) {
			case pathAbort, exitPanic, engineError:
				panic(r)
			}
			buf := make([]byte, 1<<13)
			n := runtime.Stack(buf, false)
			panic(engineError{fmt.Sprintf("host panic inside the interpreter: %v\n%s", r, buf[:n])})
		}
		fr.panicking = true
		fr.panic = r
		fr.runDefers()
		fr.block = fr.fn.Recover
	}()

	for {
		if fr.i.mode&EnableTracing != 0 {
			fmt.Fprintf(os.Stderr, ".%s:\n", fr.block)
		}

		nonPhis := executePhis(fr)
		for _, instr := range nonPhis {
			if fr.i.mode&EnableTracing != 0 {
				if v, ok := instr.(ssa.Value); ok {
					fmt.Fprintln(os.Stderr, "\t", v.Name(), "=", instr)
				} else {
					fmt.Fprintln(os.Stderr, "\t", instr)
				}
			}
			fr.curInstr = instr
			fr.i.cur = fr
			fr.i.steps++
			if stepProf != nil && !fr.i.inHarness && fr.i.path != nil {
				stepProf[fr.fn.String()]++
			}
			if fr.i.maxSteps > 0 && fr.i.steps > fr.i.maxSteps {
				if fr.i.path != nil {
					fr.i.path.unwind = fmt.Sprintf("more than %d instructions on one path", fr.i.maxSteps)
				}
				panic(pathAbort{"unwind"})
			}
			if visitInstr(fr, instr) == kReturn {
				return
			}
			// Inv: kNext (continue) or kJump (last instr)
		}
	}
}

// executePhis executes the phi-nodes at the start of the current
// block and returns the non-phi instructions.
func executePhis(fr *frame) []ssa.Instruction {
	firstNonPhi := -1
	for i, instr := range fr.block.Instrs {
		if _, ok := instr.(*ssa.Phi); !ok {
			firstNonPhi = i
			break
		}
	}
	// Inv: 0 <= firstNonPhi; every block contains a non-phi.

	nonPhis := fr.block.Instrs[firstNonPhi:]
	if firstNonPhi > 0 {
		phis := fr.block.Instrs[:firstNonPhi]
		// Execute parallel assignment of phis.
		//
		// See "the swap problem" in Briggs et al's "Practical Improvements
		// to the Construction and Destruction of SSA Form" for discussion.
		predIndex := slices.Index(fr.block.Preds, fr.prevBlock)
		fr.phitemps = fr.phitemps[:0]
		for _, phi := range phis {
			phi := phi.(*ssa.Phi)
			if fr.i.mode&EnableTracing != 0 {
				fmt.Fprintln(os.Stderr, "\t", phi.Name(), "=", phi)
			}
			fr.phitemps = append(fr.phitemps, fr.get(phi.Edges[predIndex]))
		}
		for i, phi := range phis {
			fr.env[phi.(*ssa.Phi)] = fr.phitemps[i]
		}
	}
	return nonPhis
}

// doRecover implements the recover() built-in.
func doRecover(caller *frame) value {
	// recover() must be exactly one level beneath the deferred
	// function (two levels beneath the panicking function) to
	// have any effect.  Thus we ignore both "defer recover()" and
	// "defer f() -> g() -> recover()".
	if caller.i.mode&DisableRecover == 0 &&
		caller != nil && !caller.panicking &&
		caller.caller != nil && caller.caller.panicking {
		caller.caller.panicking = false
		p := caller.caller.panic
		caller.caller.panic = nil

		// TODO(adonovan): support runtime.Goexit.
		switch p := p.(type) {
		case targetPanic:
			// The target program called panic() or hit a run-time error.
			return p.v
		default:
			panic(engineError{fmt.Sprintf("unexpected panic type %T in target call to recover()", p)})
		}
	}
	return iface{}
}

// NewInterp creates an interpreter state for program p with zeroed globals.
func NewInterp(p *Program) *interpreter {
	i := &interpreter{
		prog:       p.Prog,
		globals:    make(map[*ssa.Global]*value),
		sizes:      p.Sizes,
		goroutines: 1,
		pools:      make(map[*value][]value),
		env:        defaultEnv,
		frames:     make(map[*value][]uintptr),
		funcsRun:   make(map[string]int),
		locIDs:     make(map[*value]int),
		files:      make(map[*value]int),
		sliceData:  make(map[*value][]value),
		fileData:   make(map[int][][]value),
		stubHits:   make(map[string]int),
	}
	runtimePkg := i.prog.ImportedPackage("runtime")
	if runtimePkg == nil {
		panic("ssa.Program doesn't include runtime package")
	}
	i.runtimeErrorString = runtimePkg.Type("errorString").Object().Type()
	theRuntimeErrorString = i.runtimeErrorString
	p.reflectOnce.Do(func() {
		initReflect(i)
		p.reflectPackage, p.rtypeMethods, p.errorMethods = i.reflectPackage, i.rtypeMethods, i.errorMethods
	})
	i.reflectPackage, i.rtypeMethods, i.errorMethods = p.reflectPackage, p.rtypeMethods, p.errorMethods
	i.osArgs = append(i.osArgs, "prog")
	i.base = p.base
	i.setupEnv()
	return i
}

// BuildBase initialises, once, the packages whose state is immutable tables
// (sharedPkg); every path interpreter aliases their globals instead of
// re-running their initialisers.
func (p *Program) BuildBase() {
	p.baseOnce.Do(func() {
		b := NewInterp(p)
		for _, pkg := range p.Prog.AllPackages() {
			if sharedPkg(pkg.Pkg.Path()) {
				if f := pkg.Func("init"); f != nil {
					call(b, nil, token.NoPos, f, nil)
				}
			}
		}
		// make the base's table of shared globals complete, hence read-only
		for _, pkg := range p.Prog.AllPackages() {
			if sharedPkg(pkg.Pkg.Path()) {
				for _, m := range pkg.Members {
					if g, ok := m.(*ssa.Global); ok {
						b.globalCell(g)
					}
				}
			}
		}
		p.base = b
	})
}

// globalCell returns the storage of global g: shared immutable packages
// alias the base interpreter's cell, everything else is created on first use.
func (i *interpreter) globalCell(g *ssa.Global) *value {
	if c, ok := i.globals[g]; ok {
		return c
	}
	if i.base != nil && g.Pkg != nil && sharedPkg(g.Pkg.Pkg.Path()) {
		if c, ok := i.base.globals[g]; ok {
			return c
		}
	}
	cell := zero(mustDeref(g.Type()))
	i.globals[g] = &cell
	return &cell
}

// RunConcrete runs init and then the named function of the main package.
func RunConcrete(p *Program, fn string) (exitCode int) {
	i := NewInterp(p)
	exitCode = 2
	defer func() {
		if exitCode != 2 {
			return
		}
		switch p := recover().(type) {
		case exitPanic:
			exitCode = int(p)
			return
		case targetPanic:
			fmt.Fprintln(os.Stderr, "panic:", toString(p.v))
		case runtime.Error:
			fmt.Fprintln(os.Stderr, "panic:", p.Error())
			buf := make([]byte, 0x10000)
			n := runtime.Stack(buf, false)
			os.Stderr.Write(buf[:n])
		case string:
			fmt.Fprintln(os.Stderr, "panic:", p)
		default:
			fmt.Fprintf(os.Stderr, "panic: unexpected type: %T: %v\n", p, p)
		}
		i.dumpStack()
	}()
	call(i, nil, token.NoPos, p.Main.Func("init"), nil)
	f := p.Main.Func(fn)
	if f == nil {
		fmt.Fprintln(os.Stderr, "no such function", fn)
		return 1
	}
	call(i, nil, token.NoPos, f, nil)
	return 0
}
