package sym

import (
	"fmt"
	"math"
	"sort"
	"strings"
)

// Term is an SMT-LIB expression over bit-vectors and Booleans. Terms are
// immutable; constructors fold constants so that computations on concrete
// data never produce a non-constant Term.
type Term struct {
	op   string // "var" "const" or an SMT-LIB operator; "extract" "zext" "sext" use p1,p2
	args []*Term
	w    int    // 0 = Bool, otherwise bit-vector width
	val  uint64 // op=="const"
	name string // op=="var"
	p1   int
	p2   int
	id   int
	key  string
	tt   *termTable
	lo   uint64 // unsigned range of the value (bit-vector terms): lo <= v <= hi
	hi   uint64
}

// wFP is the width code of float64 terms (sort (_ FloatingPoint 11 53)); their
// constants hold the IEEE-754 bits, and constant folding / model evaluation
// use the host's float64 arithmetic (round to nearest even, as the solver's).
const wFP = -64

// FConst is the float64 constant f.
func (tt *termTable) FConst(f float64) *Term { return tt.Const(wFP, math.Float64bits(f)) }

// termTable hash-conses terms for one path execution.
type termTable struct {
	m    map[string]*Term
	next int
	i    *interpreter
}

func newTermTable() *termTable { return &termTable{m: map[string]*Term{}} }

func (tt *termTable) intern(t *Term) *Term {
	var sb strings.Builder
	sb.WriteString(t.op)
	fmt.Fprintf(&sb, "/%d/%d/%d/%d/%s", t.w, t.val, t.p1, t.p2, t.name)
	for _, a := range t.args {
		fmt.Fprintf(&sb, ",%d", a.id)
	}
	k := sb.String()
	if o, ok := tt.m[k]; ok {
		return o
	}
	tt.next++
	t.id = tt.next
	t.key = k
	t.tt = tt
	t.lo, t.hi = computeRange(t)
	tt.m[k] = t
	return t
}

func mask(w int) uint64 {
	if w >= 64 {
		return ^uint64(0)
	}
	return (uint64(1) << uint(w)) - 1
}

func (t *Term) isConst() bool { return t.op == "const" }

func (tt *termTable) Const(w int, v uint64) *Term {
	if w > 0 {
		v &= mask(w)
	} else if w == 0 && v != 0 {
		v = 1
	}
	return tt.intern(&Term{op: "const", w: w, val: v})
}

func (tt *termTable) Bool(b bool) *Term {
	if b {
		return tt.Const(0, 1)
	}
	return tt.Const(0, 0)
}

func (tt *termTable) Var(name string, w int) *Term {
	return tt.intern(&Term{op: "var", w: w, name: name})
}

func signExt(v uint64, w int) int64 {
	if w >= 64 {
		return int64(v)
	}
	sh := uint(64 - w)
	return int64(v<<sh) >> sh
}

// computeRange is a cheap interval analysis (independent of any path
// condition, hence sound everywhere): it lets comparisons such as
// '0' <= byte(v%10)+'0' be decided without the solver and lets the integer
// encoding drop mod-2^w wrappers that cannot wrap.
func computeRange(t *Term) (lo, hi uint64) {
	if t.w == 0 {
		return 0, 1
	}
	if t.w == wFP {
		if t.op == "const" {
			return t.val, t.val
		}
		return 0, ^uint64(0)
	}
	if len(t.args) > 0 && t.args[0].w == wFP {
		// fp.to_ubv / fp.to_sbv (truncation is monotone), comparisons
		if t.op == "fp.to_ubv" {
			if lo, hi, ok := fpInterval(t.args[0]); ok && lo >= 0 && hi < 18446744073709551616.0 {
				return uint64(lo), uint64(hi)
			}
		}
		return 0, mask(t.w)
	}
	full := mask(t.w)
	switch t.op {
	case "const":
		return t.val, t.val
	case "var":
		return 0, full
	}
	a := t.args
	addNoWrap := func(x, y uint64) (uint64, bool) {
		s := x + y
		if s < x || s > full {
			return 0, false
		}
		return s, true
	}
	switch t.op {
	case "bvurem":
		if a[1].isConst() && a[1].val != 0 {
			h := a[1].val - 1
			if a[0].hi < h {
				h = a[0].hi
			}
			return 0, h
		}
		return 0, a[0].hi
	case "bvudiv":
		if a[1].isConst() && a[1].val != 0 {
			return a[0].lo / a[1].val, a[0].hi / a[1].val
		}
		return 0, full
	case "bvadd":
		l, ok1 := addNoWrap(a[0].lo, a[1].lo)
		h, ok2 := addNoWrap(a[0].hi, a[1].hi)
		if ok1 && ok2 {
			return l, h
		}
	case "bvsub":
		if a[0].lo >= a[1].hi {
			return a[0].lo - a[1].hi, a[0].hi - a[1].lo
		}
	case "bvmul":
		for s := 0; s < 2; s++ {
			if c := a[s]; c.isConst() {
				x := a[1-s]
				if c.val == 0 {
					return 0, 0
				}
				if x.hi <= full/c.val {
					return x.lo * c.val, x.hi * c.val
				}
			}
		}
	case "bvand":
		h := a[0].hi
		if a[1].hi < h {
			h = a[1].hi
		}
		return 0, h
	case "bvlshr":
		if a[1].isConst() && a[1].val < 64 {
			return a[0].lo >> a[1].val, a[0].hi >> a[1].val
		}
		return 0, a[0].hi
	case "zext":
		return a[0].lo, a[0].hi
	case "extract":
		if t.p2 == 0 && a[0].hi <= full {
			return a[0].lo, a[0].hi
		}
	case "ite":
		l, h := a[1].lo, a[1].hi
		if a[2].lo < l {
			l = a[2].lo
		}
		if a[2].hi > h {
			h = a[2].hi
		}
		return l, h
	}
	return 0, full
}

// rangeDecides evaluates a comparison from the operand ranges when they
// decide it.
func rangeDecides(op string, x, y *Term) (bool, bool) {
	w := x.w
	if w == 0 {
		return false, false
	}
	sgnOK := x.hi <= mask(w)>>1 && y.hi <= mask(w)>>1 // both non-negative as signed
	switch op {
	case "bvslt", "bvsle", "bvsgt", "bvsge":
		if !sgnOK {
			return false, false
		}
		op = "bvu" + op[3:]
	}
	switch op {
	case "bvult":
		if x.hi < y.lo {
			return true, true
		}
		if x.lo >= y.hi {
			return false, true
		}
	case "bvule":
		if x.hi <= y.lo {
			return true, true
		}
		if x.lo > y.hi {
			return false, true
		}
	case "bvugt":
		if x.lo > y.hi {
			return true, true
		}
		if x.hi <= y.lo {
			return false, true
		}
	case "bvuge":
		if x.lo >= y.hi {
			return true, true
		}
		if x.hi < y.lo {
			return false, true
		}
	case "=":
		if x.hi < y.lo || y.hi < x.lo {
			return false, true
		}
	}
	return false, false
}

// evalOp computes op on constants; ok=false if op is unknown.
func evalOp(op string, w int, a []uint64, aw int, p1, p2 int) (uint64, bool) {
	b2u := func(b bool) uint64 {
		if b {
			return 1
		}
		return 0
	}
	f := math.Float64frombits
	fb := math.Float64bits
	switch op {
	case "fp.add":
		return fb(f(a[0]) + f(a[1])), true
	case "fp.sub":
		return fb(f(a[0]) - f(a[1])), true
	case "fp.mul":
		return fb(f(a[0]) * f(a[1])), true
	case "fp.div":
		return fb(f(a[0]) / f(a[1])), true
	case "fp.neg":
		return fb(-f(a[0])), true
	case "fp.from_ubv":
		return fb(float64(a[0])), true
	case "fp.from_sbv":
		return fb(float64(int64(a[0]))), true
	case "fp.to_ubv":
		return uint64(f(a[0])), true // callers prove 0 <= x < 2^64 first
	case "fp.to_sbv":
		return uint64(int64(f(a[0]))), true // callers prove -2^63 <= x < 2^63 first
	case "fp.lt":
		return b2u(f(a[0]) < f(a[1])), true
	case "fp.leq":
		return b2u(f(a[0]) <= f(a[1])), true
	case "fp.eq":
		return b2u(f(a[0]) == f(a[1])), true
	case "bvadd":
		return (a[0] + a[1]) & mask(w), true
	case "bvsub":
		return (a[0] - a[1]) & mask(w), true
	case "bvmul":
		return (a[0] * a[1]) & mask(w), true
	case "bvand":
		return a[0] & a[1], true
	case "bvor":
		return a[0] | a[1], true
	case "bvxor":
		return a[0] ^ a[1], true
	case "bvnot":
		return ^a[0] & mask(w), true
	case "bvneg":
		return (-a[0]) & mask(w), true
	case "bvudiv":
		if a[1] == 0 {
			return mask(w), true
		}
		return a[0] / a[1], true
	case "bvurem":
		if a[1] == 0 {
			return a[0], true
		}
		return a[0] % a[1], true
	case "bvsdiv":
		x, y := signExt(a[0], w), signExt(a[1], w)
		if y == 0 {
			if x < 0 {
				return 1, true
			}
			return mask(w), true
		}
		if y == -1 {
			return uint64(-x) & mask(w), true
		}
		return uint64(x/y) & mask(w), true
	case "bvsrem":
		x, y := signExt(a[0], w), signExt(a[1], w)
		if y == 0 {
			return a[0], true
		}
		if y == -1 {
			return 0, true
		}
		return uint64(x%y) & mask(w), true
	case "bvshl":
		if a[1] >= uint64(w) {
			return 0, true
		}
		return (a[0] << a[1]) & mask(w), true
	case "bvlshr":
		if a[1] >= uint64(w) {
			return 0, true
		}
		return a[0] >> a[1], true
	case "bvashr":
		x := signExt(a[0], w)
		if a[1] >= uint64(w) {
			if x < 0 {
				return mask(w), true
			}
			return 0, true
		}
		return uint64(x>>a[1]) & mask(w), true
	case "bvult":
		return b2u(a[0] < a[1]), true
	case "bvule":
		return b2u(a[0] <= a[1]), true
	case "bvugt":
		return b2u(a[0] > a[1]), true
	case "bvuge":
		return b2u(a[0] >= a[1]), true
	case "bvslt":
		return b2u(signExt(a[0], aw) < signExt(a[1], aw)), true
	case "bvsle":
		return b2u(signExt(a[0], aw) <= signExt(a[1], aw)), true
	case "bvsgt":
		return b2u(signExt(a[0], aw) > signExt(a[1], aw)), true
	case "bvsge":
		return b2u(signExt(a[0], aw) >= signExt(a[1], aw)), true
	case "=":
		return b2u(a[0] == a[1]), true
	case "not":
		return b2u(a[0] == 0), true
	case "and":
		for _, x := range a {
			if x == 0 {
				return 0, true
			}
		}
		return 1, true
	case "or":
		for _, x := range a {
			if x != 0 {
				return 1, true
			}
		}
		return 0, true
	case "ite":
		if a[0] != 0 {
			return a[1], true
		}
		return a[2], true
	case "extract":
		return (a[0] >> uint(p2)) & mask(p1-p2+1), true
	case "zext":
		return a[0], true
	case "sext":
		return uint64(signExt(a[0], aw)) & mask(w), true
	case "concat":
		return 0, false
	}
	return 0, false
}

// App builds op(args...) with result width w, folding constants.
func (tt *termTable) App(op string, w int, args ...*Term) *Term {
	return tt.app(op, w, 0, 0, args...)
}

func (tt *termTable) app(op string, w, p1, p2 int, args ...*Term) *Term {
	allc := true
	for _, a := range args {
		if !a.isConst() {
			allc = false
			break
		}
	}
	if allc {
		vals := make([]uint64, len(args))
		for k, a := range args {
			vals[k] = a.val
		}
		aw := 0
		if len(args) > 0 {
			aw = args[0].w
			if op == "ite" {
				aw = args[1].w
			}
		}
		if v, ok := evalOp(op, w, vals, aw, p1, p2); ok {
			return tt.Const(w, v)
		}
	}
	// comparisons decided by the operand ranges
	switch op {
	case "bvult", "bvule", "bvugt", "bvuge", "bvslt", "bvsle", "bvsgt", "bvsge", "=":
		if len(args) == 2 && args[0].w > 0 {
			if r, ok := rangeDecides(op, args[0], args[1]); ok {
				return tt.Bool(r)
			}
		}
	}
	// light simplification
	switch op {
	case "not":
		if args[0].op == "not" {
			return args[0].args[0]
		}
	case "and", "or":
		unit := op == "and" // and: true is unit, false absorbs
		var out []*Term
		seen := map[int]bool{}
		for _, a := range args {
			if a.op == op {
				for _, b := range a.args {
					if !seen[b.id] {
						seen[b.id] = true
						out = append(out, b)
					}
				}
				continue
			}
			if a.isConst() {
				if (a.val != 0) == unit {
					continue
				}
				return tt.Bool(!unit)
			}
			if !seen[a.id] {
				seen[a.id] = true
				out = append(out, a)
			}
		}
		if len(out) == 0 {
			return tt.Bool(unit)
		}
		if len(out) == 1 {
			return out[0]
		}
		args = out
	case "ite":
		if args[0].isConst() {
			if args[0].val != 0 {
				return args[1]
			}
			return args[2]
		}
		if args[1] == args[2] {
			return args[1]
		}
		if w == 0 && args[1].isConst() && args[2].isConst() {
			if args[1].val != 0 {
				return args[0]
			}
			return tt.App("not", 0, args[0])
		}
	case "=":
		if args[0] == args[1] {
			return tt.Bool(true)
		}
		if args[0].w == 0 {
			// Boolean equality with a constant
			if args[1].isConst() {
				if args[1].val != 0 {
					return args[0]
				}
				return tt.App("not", 0, args[0])
			}
			if args[0].isConst() {
				if args[0].val != 0 {
					return args[1]
				}
				return tt.App("not", 0, args[1])
			}
		}
		// (= (ite c k1 k2) k) with constants
		for s := 0; s < 2; s++ {
			x, k := args[s], args[1-s]
			if k.isConst() && x.op == "ite" && x.args[1].isConst() && x.args[2].isConst() {
				t1 := x.args[1].val == k.val
				t2 := x.args[2].val == k.val
				switch {
				case t1 && t2:
					return tt.Bool(true)
				case t1:
					return x.args[0]
				case t2:
					return tt.App("not", 0, x.args[0])
				default:
					return tt.Bool(false)
				}
			}
		}
	case "bvadd", "bvor", "bvxor":
		if args[1].isConst() && args[1].val == 0 {
			return args[0]
		}
		if args[0].isConst() && args[0].val == 0 {
			return args[1]
		}
	case "bvsub", "bvshl", "bvlshr", "bvashr":
		if args[1].isConst() && args[1].val == 0 {
			return args[0]
		}
	case "bvand":
		if args[1].isConst() {
			if args[1].val == 0 {
				return args[1]
			}
			if args[1].val == mask(w) {
				return args[0]
			}
		}
		if args[0].isConst() {
			if args[0].val == 0 {
				return args[0]
			}
			if args[0].val == mask(w) {
				return args[1]
			}
		}
	case "bvmul":
		if args[1].isConst() && args[1].val == 1 {
			return args[0]
		}
		if args[0].isConst() && args[0].val == 1 {
			return args[1]
		}
	case "extract":
		if p2 == 0 && p1 == args[0].w-1 {
			return args[0]
		}
		// extract of zext/sext that stays inside the original
		if (args[0].op == "zext" || args[0].op == "sext") && p1 < args[0].args[0].w {
			return tt.app("extract", w, p1, p2, args[0].args[0])
		}
	case "zext", "sext":
		if w == args[0].w {
			return args[0]
		}
	}
	return tt.intern(&Term{op: op, w: w, p1: p1, p2: p2, args: args})
}

func (tt *termTable) Not(a *Term) *Term   { return tt.App("not", 0, a) }
func (tt *termTable) And(a ...*Term) *Term { return tt.App("and", 0, a...) }
func (tt *termTable) Or(a ...*Term) *Term  { return tt.App("or", 0, a...) }
func (tt *termTable) Eq(a, b *Term) *Term  { return tt.App("=", 0, a, b) }
func (tt *termTable) Ite(c, a, b *Term) *Term {
	return tt.App("ite", a.w, c, a, b)
}
func (tt *termTable) Extract(a *Term, hi, lo int) *Term {
	return tt.app("extract", hi-lo+1, hi, lo, a)
}
func (tt *termTable) ZExt(a *Term, w int) *Term {
	if w == a.w {
		return a
	}
	return tt.app("zext", w, w-a.w, 0, a)
}
func (tt *termTable) SExt(a *Term, w int) *Term {
	if w == a.w {
		return a
	}
	return tt.app("sext", w, w-a.w, 0, a)
}

// Resize converts a to width w (truncate, or extend by signedness).
func (tt *termTable) Resize(a *Term, w int, signed bool) *Term {
	switch {
	case w == a.w:
		return a
	case w < a.w:
		return tt.Extract(a, w-1, 0)
	case signed:
		return tt.SExt(a, w)
	default:
		return tt.ZExt(a, w)
	}
}

// ---- evaluation under a model ----

// Model maps variable names to values.
type Model map[string]uint64

func (t *Term) Eval(m Model, memo map[int]uint64) uint64 {
	if v, ok := memo[t.id]; ok {
		return v
	}
	var v uint64
	switch t.op {
	case "const":
		v = t.val
	case "var":
		v = m[t.name]
	default:
		vals := make([]uint64, len(t.args))
		for k, a := range t.args {
			vals[k] = a.Eval(m, memo)
		}
		aw := 0
		if len(t.args) > 0 {
			aw = t.args[0].w
			if t.op == "ite" {
				aw = t.args[1].w
			}
		}
		r, ok := evalOp(t.op, t.w, vals, aw, t.p1, t.p2)
		if !ok {
			panic(engineError{"Eval: unknown op " + t.op})
		}
		v = r
	}
	memo[t.id] = v
	return v
}

// ---- SMT-LIB printing ----

func sortOf(w int) string {
	if w == 0 {
		return "Bool"
	}
	if w == wFP {
		return "(_ FloatingPoint 11 53)"
	}
	return fmt.Sprintf("(_ BitVec %d)", w)
}

func constStr(w int, v uint64) string {
	if w == wFP {
		return fmt.Sprintf("((_ to_fp 11 53) #x%016x)", v)
	}
	if w == 0 {
		if v != 0 {
			return "true"
		}
		return "false"
	}
	if w%4 == 0 {
		return fmt.Sprintf("#x%0*x", w/4, v)
	}
	return fmt.Sprintf("#b%0*b", w, v)
}

// smtScript renders (declare-const…)(assert …) for the conjunction of
// terms, sharing repeated sub-terms through let-bindings.
func smtScript(asserts []*Term) (script string, vars []*Term) {
	// reference counts over the DAG
	refs := map[int]int{}
	var order []*Term
	var visit func(t *Term)
	visit = func(t *Term) {
		refs[t.id]++
		if refs[t.id] > 1 {
			return
		}
		for _, a := range t.args {
			visit(a)
		}
		order = append(order, t) // post-order: children first
	}
	for _, a := range asserts {
		visit(a)
	}
	var sb strings.Builder
	for _, t := range order {
		if t.op == "var" {
			vars = append(vars, t)
		}
	}
	sort.Slice(vars, func(i, j int) bool { return vars[i].name < vars[j].name })
	for _, v := range vars {
		fmt.Fprintf(&sb, "(declare-const %s %s)\n", v.name, sortOf(v.w))
	}
	named := map[int]string{}
	var expr func(t *Term) string
	expr = func(t *Term) string {
		if n, ok := named[t.id]; ok {
			return n
		}
		switch t.op {
		case "const":
			return constStr(t.w, t.val)
		case "var":
			return t.name
		}
		var b strings.Builder
		b.WriteByte('(')
		switch t.op {
		case "extract":
			fmt.Fprintf(&b, "(_ extract %d %d)", t.p1, t.p2)
		case "zext":
			fmt.Fprintf(&b, "(_ zero_extend %d)", t.p1)
		case "sext":
			fmt.Fprintf(&b, "(_ sign_extend %d)", t.p1)
		case "fp.add", "fp.sub", "fp.mul", "fp.div":
			b.WriteString(t.op + " RNE")
		case "fp.from_ubv":
			b.WriteString("(_ to_fp_unsigned 11 53) RNE")
		case "fp.from_sbv":
			b.WriteString("(_ to_fp 11 53) RNE")
		case "fp.to_ubv":
			b.WriteString("(_ fp.to_ubv 64) RTZ")
		case "fp.to_sbv":
			b.WriteString("(_ fp.to_sbv 64) RTZ")
		default:
			b.WriteString(t.op)
		}
		for _, a := range t.args {
			b.WriteByte(' ')
			b.WriteString(expr(a))
		}
		b.WriteByte(')')
		return b.String()
	}
	// shared non-leaf nodes become define-funs (in dependency order)
	for _, t := range order {
		if refs[t.id] > 1 && len(t.args) > 0 {
			e := expr(t)
			n := fmt.Sprintf("t%d", t.id)
			fmt.Fprintf(&sb, "(define-fun %s () %s %s)\n", n, sortOf(t.w), e)
			named[t.id] = n
		}
	}
	for _, a := range asserts {
		fmt.Fprintf(&sb, "(assert %s)\n", expr(a))
	}
	return sb.String(), vars
}
