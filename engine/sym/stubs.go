package sym

import (
	"fmt"
	"go/token"
	"go/types"
	"strings"
	"sync"
)

// Environment stubs (DESIGN.md 2.3). Every stub is part of the claim; hits
// are recorded in interpreter.stubHits and listed in the evidence.

func init() {
	for _, w := range []string{"Int32", "Int64", "Uint32", "Uint64", "Uintptr", "Pointer"} {
		externals["sync/atomic.Load"+w] = func(fr *frame, args []value) value { return *args[0].(*value) }
		externals["sync/atomic.Store"+w] = func(fr *frame, args []value) value {
			fr.i.setCell(args[0].(*value), args[1])
			return nil
		}
		externals["sync/atomic.Swap"+w] = func(fr *frame, args []value) value {
			p := args[0].(*value)
			old := *p
			fr.i.setCell(p, args[1])
			return old
		}
		externals["sync/atomic.CompareAndSwap"+w] = func(fr *frame, args []value) value {
			p := args[0].(*value)
			if eqConcrete(*p, args[1]) {
				fr.i.setCell(p, args[2])
				return true
			}
			return false
		}
		if w != "Pointer" {
			externals["sync/atomic.Add"+w] = func(fr *frame, args []value) value {
				p := args[0].(*value)
				nv := binop(token.ADD, nil, *p, args[1])
				fr.i.setCell(p, nv)
				return nv
			}
			externals["sync/atomic.And"+w] = func(fr *frame, args []value) value {
				p := args[0].(*value)
				old := *p
				fr.i.setCell(p, binop(token.AND, nil, old, args[1]))
				return old
			}
			externals["sync/atomic.Or"+w] = func(fr *frame, args []value) value {
				p := args[0].(*value)
				old := *p
				fr.i.setCell(p, binop(token.OR, nil, old, args[1]))
				return old
			}
		}
	}
	externals["(*sync.Pool).Get"] = func(fr *frame, args []value) value {
		p := args[0].(*value)
		st := fr.i.pools[p]
		if n := len(st); n > 0 {
			v := st[n-1]
			fr.i.pools[p] = st[:n-1]
			fr.i.mon.ownObject(v)
			return v
		}
		// field New is the last field of sync.Pool
		s := (*p).(structure)
		newf := s[len(s)-1]
		if f, ok := newf.(*closure); ok && f != nil {
			return call(fr.i, fr, token.NoPos, f, nil)
		}
		if f, ok := newf.(*ssaFunc); ok && f != nil {
			return call(fr.i, fr, token.NoPos, f, nil)
		}
		return iface{}
	}
	externals["(*sync.Pool).Put"] = func(fr *frame, args []value) value {
		p := args[0].(*value)
		if x, ok := args[1].(iface); ok && x.t == nil {
			return nil
		}
		if m := fr.i.mon; m != nil && !m.ownsObject(args[1]) && !harnessFrame(fr) {
			// memory reachable from the call's inputs is being published to every other goroutine
			fr.monitorViolation("sync.Pool.Put of an object")
		}
		fr.i.pools[p] = append(fr.i.pools[p], args[1])
		return nil
	}
	externals["sync.runtime_registerPoolCleanup"] = func(fr *frame, args []value) value { return nil }
	externals["sync.throw"] = func(fr *frame, args []value) value { panic("sync.throw: " + args[0].(string)) }
	externals["sync.fatal"] = func(fr *frame, args []value) value { panic("sync.fatal: " + args[0].(string)) }
	externals["sync.runtime_Semacquire"] = func(fr *frame, args []value) value { panic("engine: semacquire would block") }
	externals["sync.runtime_SemacquireMutex"] = func(fr *frame, args []value) value { panic("engine: mutex would block (deadlock)") }
	externals["sync.runtime_SemacquireRWMutex"] = func(fr *frame, args []value) value { panic("engine: rwmutex would block") }
	externals["sync.runtime_SemacquireRWMutexR"] = func(fr *frame, args []value) value { panic("engine: rwmutex would block") }
	externals["sync.runtime_Semrelease"] = func(fr *frame, args []value) value { return nil }
}

func eqConcrete(a, b value) bool {
	defer func() { recover() }()
	return a == b
}

func notEncodable(name string) externalFn {
	return func(fr *frame, args []value) value {
		panic(engineError{fmt.Sprintf("not encodable: call to %s", name)})
	}
}

type engineError struct{ msg string }

func (e engineError) Error() string { return e.msg }

var _ = strings.HasPrefix

func init() {
	externals["(*strings.Builder).copyCheck"] = func(fr *frame, args []value) value { return nil }
	externals["(*strings.Builder).String"] = func(fr *frame, args []value) value {
		s := (*args[0].(*value)).(structure)
		// fields: addr *Builder, buf []byte
		return mkString(s[1].([]value))
	}
	externals["internal/abi.NoEscape"] = func(fr *frame, args []value) value { return args[0] }
	// Compiled regular expressions are immutable: compile each pattern once
	// per process with the real code and share the object between paths.
	externals["regexp.MustCompile"] = func(fr *frame, args []value) value {
		pat, ok := args[0].(string)
		if !ok {
			return runRealCode{}
		}
		reCacheMu.Lock()
		defer reCacheMu.Unlock()
		if v, ok := reCache[pat]; ok {
			return v
		}
		comp := fr.i.prog.ImportedPackage("regexp").Func("Compile")
		r := call(fr.i, fr, token.NoPos, comp, []value{pat}).(tuple)
		if e, _ := r[1].(iface); e.t != nil {
			return runRealCode{} // let the real MustCompile panic
		}
		reCache[pat] = r[0]
		return r[0]
	}
}

// bytesToString converts a []byte value to a string value.
func bytesToString(b []value) value {
	out := make([]byte, len(b))
	for i, c := range b {
		out[i] = c.(uint8)
	}
	return string(out)
}

// EnvConfig is the process environment the stubs present to the library.
type EnvConfig struct {
	Args []string
	Home string
	Cwd  string
	Env  map[string]string
}

var defaultEnv = EnvConfig{Args: []string{"/usr/local/bin/app"}, Home: "/nonexistent-home", Cwd: "/tmp", Env: map[string]string{}}

func (i *interpreter) setupEnv() {
	osp := i.prog.ImportedPackage("os")
	if osp == nil {
		return
	}
	var args []value
	for _, a := range i.env.Args {
		args = append(args, a)
	}
	*i.globalCell(osp.Var("Args")) = args
	ft := osp.Type("File").Type()
	for k, n := range []string{"Stdin", "Stdout", "Stderr"} {
		v := zero(ft)
		*i.globalCell(osp.Var(n)) = &v
		i.files[&v] = k
	}
}

func init() {
	nilErr := iface{}
	externals["os.Getwd"] = func(fr *frame, args []value) value { return tuple{fr.i.env.Cwd, nilErr} }
	externals["os.UserHomeDir"] = func(fr *frame, args []value) value { return tuple{fr.i.env.Home, nilErr} }
	externals["os.Getenv"] = func(fr *frame, args []value) value { return fr.i.env.Env[args[0].(string)] }
	externals["os.LookupEnv"] = func(fr *frame, args []value) value {
		v, ok := fr.i.env.Env[args[0].(string)]
		return tuple{v, ok}
	}
	externals["os.Getppid"] = func(fr *frame, args []value) value { return 1 }
	externals["os.Getpid"] = func(fr *frame, args []value) value { return 2 }
	externals["github.com/hedzr/is/states.IsUnderDebugger"] = func(fr *frame, args []value) value { return false }
	externals["runtime/trace.IsEnabled"] = func(fr *frame, args []value) value { return false }
}

// ---- call-stack model for runtime.Callers (DESIGN.md C14) ----

type pcInfo struct {
	fn   *ssaFunc
	file string
	line int
}

const pcBase = 0x10000

func runtimeFuncName(fn *ssaFunc) string {
	// ssa: "(*pkg/path.T).M", "(pkg/path.T).M", "pkg/path.F", "pkg/path.F$1"
	if fn.Parent() != nil {
		// anonymous function: runtime names it parent.funcN
		s := fn.Name() // e.g. "F$1"
		_ = s
		p := runtimeFuncName(fn.Parent())
		nm := fn.Name()
		if i := strings.LastIndex(nm, "$"); i >= 0 {
			return p + ".func" + nm[i+1:]
		}
		return p + "." + nm
	}
	if recv := fn.Signature.Recv(); recv != nil && fn.Pkg != nil {
		t := recv.Type()
		ptr := false
		if p, ok := t.(*types.Pointer); ok {
			t = p.Elem()
			ptr = true
		}
		tn := t.String()
		if n, ok := t.(*types.Named); ok {
			tn = n.Obj().Name()
		}
		if ptr {
			return fn.Pkg.Pkg.Path() + ".(*" + tn + ")." + fn.Name()
		}
		return fn.Pkg.Pkg.Path() + "." + tn + "." + fn.Name()
	}
	if fn.Pkg != nil {
		return fn.Pkg.Pkg.Path() + "." + fn.Name()
	}
	return fn.String()
}

// callStack returns the logical call stack seen from the external frame fr
// (innermost first; element 0 is the external function itself). Synthetic
// wrappers are elided like the runtime elides autogenerated frames.
func (i *interpreter) callStack(fr *frame) []pcInfo {
	var out []pcInfo
	out = append(out, pcInfo{fn: fr.fn})
	for f := fr.caller; f != nil; f = f.caller {
		if f.fn.Synthetic != "" && f.fn.Synthetic != "package initializer" {
			continue
		}
		pi := pcInfo{fn: f.fn}
		if f.curInstr != nil {
			p := i.prog.Fset.Position(f.curInstr.Pos())
			pi.file, pi.line = p.Filename, p.Line
		}
		out = append(out, pi)
	}
	return out
}

func (i *interpreter) internPC(p pcInfo) uintptr {
	for k, q := range i.pcs {
		if q == p {
			return uintptr(pcBase + k)
		}
	}
	i.pcs = append(i.pcs, p)
	return uintptr(pcBase + len(i.pcs) - 1)
}

func (i *interpreter) lookupPC(pc uintptr) (pcInfo, bool) {
	k := int(pc) - pcBase
	if k < 0 || k >= len(i.pcs) {
		return pcInfo{}, false
	}
	return i.pcs[k], true
}

func structFieldIndex(t types.Type, name string) int {
	st := t.Underlying().(*types.Struct)
	for k := 0; k < st.NumFields(); k++ {
		if st.Field(k).Name() == name {
			return k
		}
	}
	panic("no field " + name + " in " + t.String())
}

func (i *interpreter) makeRuntimeFrame(pc uintptr) value {
	ft := i.prog.ImportedPackage("runtime").Type("Frame").Type()
	f := zero(ft).(structure)
	if pi, ok := i.lookupPC(pc); ok {
		f[structFieldIndex(ft, "PC")] = pc
		f[structFieldIndex(ft, "Function")] = runtimeFuncName(pi.fn)
		f[structFieldIndex(ft, "File")] = pi.file
		f[structFieldIndex(ft, "Line")] = pi.line
	}
	return f
}

func init() {
	externals["runtime.Callers"] = func(fr *frame, args []value) value {
		skip := int(asInt64(fr.i.concretize(args[0])))
		pcs := args[1].([]value)
		st := fr.i.callStack(fr)
		n := 0
		for k := skip; k < len(st) && n < len(pcs); k++ {
			fr.i.setCell(&pcs[n], fr.i.internPC(st[k]))
			n++
		}
		return n
	}
	externals["runtime.Caller"] = func(fr *frame, args []value) value {
		skip := int(asInt64(fr.i.concretize(args[0]))) + 1
		st := fr.i.callStack(fr)
		if skip >= len(st) {
			return tuple{uintptr(0), "", 0, false}
		}
		return tuple{fr.i.internPC(st[skip]), st[skip].file, st[skip].line, true}
	}
	externals["runtime.CallersFrames"] = func(fr *frame, args []value) value {
		t := fr.i.prog.ImportedPackage("runtime").Type("Frames").Type()
		v := zero(t)
		p := &v
		var pcs []uintptr
		for _, x := range args[0].([]value) {
			pcs = append(pcs, x.(uintptr))
		}
		fr.i.frames[p] = pcs
		return p
	}
	externals["(*runtime.Frames).Next"] = func(fr *frame, args []value) value {
		p := args[0].(*value)
		pcs := fr.i.frames[p]
		if len(pcs) == 0 {
			return tuple{fr.i.makeRuntimeFrame(0), false}
		}
		fr.i.frames[p] = pcs[1:]
		return tuple{fr.i.makeRuntimeFrame(pcs[0]), len(pcs) > 1}
	}
	externals["runtime.FuncForPC"] = func(fr *frame, args []value) value {
		// *runtime.Func is opaque: encode the pc in a fresh cell
		var v value = args[0]
		return &v
	}
	externals["(*runtime.Func).Name"] = func(fr *frame, args []value) value {
		p := args[0].(*value)
		if p == nil {
			return ""
		}
		if pi, ok := fr.i.lookupPC((*p).(uintptr)); ok {
			return runtimeFuncName(pi.fn)
		}
		return ""
	}
	externals["(*runtime.Func).FileLine"] = func(fr *frame, args []value) value {
		if pi, ok := fr.i.lookupPC(args[1].(uintptr)); ok {
			return tuple{pi.file, pi.line}
		}
		return tuple{"", 0}
	}
}

func init() {
	externals["time.runtimeNano"] = func(fr *frame, args []value) value { return int64(1000000) }
	externals["time.now"] = func(fr *frame, args []value) value {
		return tuple{int64(1700000000), int32(123456789), int64(2000000)}
	}
	// local zone: UTC, no tzdata lookup
	externals["(*time.Location).get"] = func(fr *frame, args []value) value {
		p := args[0].(*value)
		if p == nil {
			return fr.i.globalAddr("time", "utcLoc")
		}
		if p == fr.i.globalAddr("time", "localLoc") {
			return fr.i.globalAddr("time", "utcLoc")
		}
		return p
	}
}

func (i *interpreter) globalAddr(pkg, name string) *value {
	return i.globalCell(i.prog.ImportedPackage(pkg).Var(name))
}

var (
	reCacheMu sync.Mutex
	reCache   = map[string]value{}
)

// runRealCode is returned by a conditional stub to run the function's SSA.
type runRealCode struct{}

// hasSym reports whether v contains a symbolic scalar or string (shallow
// through interfaces, slices, structs; pointers are not followed).
func hasSym(v value, depth int) bool {
	if depth > 4 {
		return false
	}
	switch v := v.(type) {
	case sv, symstr:
		return true
	case iface:
		return hasSym(v.v, depth+1)
	case []value:
		for _, e := range v {
			if hasSym(e, depth+1) {
				return true
			}
		}
	case structure:
		for _, e := range v {
			if hasSym(e, depth+1) {
				return true
			}
		}
	case array:
		for _, e := range v {
			if hasSym(e, depth+1) {
				return true
			}
		}
	case tuple:
		for _, e := range v {
			if hasSym(e, depth+1) {
				return true
			}
		}
	}
	return false
}

// needsReflect reports whether formatting the operands would need reflect
// features the engine's minimal reflect does not have (pointers without
// String/Error methods, maps, funcs).
func needsReflect(args []value) bool {
	var nested func(v value, d int) bool
	nested = func(v value, d int) bool {
		if d > 3 {
			return false
		}
		switch v := v.(type) {
		case *value, *omap, *closure, *ssaFunc:
			return true
		case iface:
			if v.t == nil {
				return false
			}
			switch v.v.(type) {
			case *value, *omap, *closure, *ssaFunc:
				ms := types.NewMethodSet(v.t)
				return ms.Lookup(nil, "String") == nil && ms.Lookup(nil, "Error") == nil && ms.Lookup(nil, "Format") == nil
			}
			return nested(v.v, d+1)
		case []value:
			for _, e := range v {
				if nested(e, d+1) {
					return true
				}
			}
		case structure:
			for _, e := range v {
				if nested(e, d+1) {
					return true
				}
			}
		case array:
			for _, e := range v {
				if nested(e, d+1) {
					return true
				}
			}
		}
		return false
	}
	for _, a := range args {
		ops, ok := a.([]value)
		if !ok {
			continue
		}
		for _, o := range ops {
			if nested(o, 0) {
				return true
			}
		}
	}
	return false
}

// opaqueString is the result of formatting symbolic operands: unconstrained
// bytes (nothing can be proved about them), so that no verdict silently
// depends on text the engine did not compute.
func (i *interpreter) opaqueString(n int) value {
	cells := make([]value, n)
	for k := range cells {
		cells[k] = i.freshVar(types.Uint8, "o")
	}
	return mkString(cells)
}

// symFormat formats like fmt.Sprintf when some operand is symbolic: verbs
// %s %v %q on string-like operands are computed exactly (%q by running the
// real strconv.Quote symbolically); concrete operands are formatted by the
// real fmt code one verb at a time; anything else yields an opaque string.
func (fr *frame) symFormat(format string, ops []value) (value, bool) {
	var out []value
	lit := func(s string) { out = append(out, strCells(s)...) }
	argi := 0
	for p := 0; p < len(format); {
		c := format[p]
		if c != '%' {
			lit(string(c))
			p++
			continue
		}
		if p+1 < len(format) && format[p+1] == '%' {
			lit("%")
			p += 2
			continue
		}
		q := p + 1
		for q < len(format) && strings.IndexByte("+-# 0123456789.", format[q]) >= 0 {
			q++
		}
		if q >= len(format) || argi >= len(ops) {
			return nil, false
		}
		verb := format[q]
		spec := format[p : q+1]
		op := ops[argi]
		argi++
		p = q + 1
		ifc, _ := op.(iface)
		if !hasSym(op, 0) {
			sprintf := fr.i.prog.ImportedPackage("fmt").Func("Sprintf")
			r := call(fr.i, fr, token.NoPos, sprintf, []value{spec, []value{op}})
			out = append(out, strCells(r)...)
			continue
		}
		if !isStr(ifc.v) || spec != "%"+string(verb) {
			return nil, false
		}
		switch verb {
		case 's', 'v':
			out = append(out, strCells(ifc.v)...)
		case 'q':
			quote := fr.i.prog.ImportedPackage("strconv").Func("Quote")
			r := call(fr.i, fr, token.NoPos, quote, []value{ifc.v})
			out = append(out, strCells(r)...)
		default:
			return nil, false
		}
	}
	return mkString(out), true
}

// opaqueLetters is an opaque text modelled as n unknown lower-case letters
// (used where the operands are concrete but need reflect internals: the real
// text is a fixed string the engine cannot compute; letters keep it out of
// the escaping/markup code paths, which are exercised by their own harnesses).
func (i *interpreter) opaqueLetters(n int) value {
	cells := make([]value, n)
	for k := range cells {
		v := i.freshVar(types.Uint8, "o")
		i.assume(vAnd(symBinop("bvuge", v, uint8('a')), symBinop("bvule", v, uint8('z'))))
		cells[k] = v
	}
	return mkString(cells)
}

func init() {
	fmtOpaque := func(argIdx int, wrapErr bool) externalFn {
		return func(fr *frame, args []value) value {
			sym := false
			for _, a := range args {
				if hasSym(a, 0) {
					sym = true
				}
			}
			if !sym && fr.i.path != nil && needsReflect(args) {
				// pointers, maps, funcs: the real fmt would go through reflect
				// internals the engine does not provide; the text is opaque
				fr.i.stubHits["fmt:opaque-result-for-reflect-only-operands(4 unknown lower-case letters)"]++
				s := fr.i.opaqueLetters(4)
				if wrapErr {
					et := fr.i.prog.ImportedPackage("errors").Type("errorString").Type()
					var cell value = structure{s}
					return iface{t: types.NewPointer(et), v: &cell}
				}
				return s
			}
			if !sym || fr.i.path == nil {
				return runRealCode{}
			}
			var s value
			done := false
			if argIdx == 1 {
				if f, ok := args[0].(string); ok {
					if r, ok := fr.symFormat(f, args[1].([]value)); ok {
						s, done = r, true
						fr.i.stubHits["fmt:verbs-on-symbolic-strings-computed-exactly"]++
					}
				}
			}
			if !done {
				fr.i.stubHits["fmt:opaque-result-for-symbolic-operands(4 unknown lower-case letters)"]++
				s = fr.i.opaqueLetters(4)
			}
			if wrapErr {
				// *errors.errorString{s}
				et := fr.i.prog.ImportedPackage("errors").Type("errorString").Type()
				var cell value = structure{s}
				return iface{t: types.NewPointer(et), v: &cell}
			}
			return s
		}
	}
	externals["fmt.Sprintf"] = fmtOpaque(1, false)
	externals["fmt.Sprint"] = fmtOpaque(0, false)
	externals["fmt.Sprintln"] = fmtOpaque(0, false)
	externals["fmt.Errorf"] = fmtOpaque(1, true)
}

// ---- recording stub for time formatting (DESIGN.md C16) ----
//
// With vStubTimeFormat(true), (time.Time).AppendFormat appends a token that
// is an injective image of (wall, ext, loc, layout): two tokens are equal
// iff the instant representation, the zone and the layout are identical.
// Formatting itself is the standard library's and outside the claim.

func wordCells(v value) []value {
	out := make([]value, 8)
	if s, ok := v.(sv); ok {
		tt := s.T.tt
		for k := 0; k < 8; k++ {
			out[k] = norm(tt.Extract(s.T, 8*k+7, 8*k), types.Uint8)
		}
		return out
	}
	_, u, _ := kindOf(v)
	for k := 0; k < 8; k++ {
		out[k] = uint8(u >> (8 * k))
	}
	return out
}

func init() {
	externals["(time.Time).AppendFormat"] = func(fr *frame, args []value) value {
		if fr.i.path == nil || !fr.i.path.stubTimeFormat {
			return runRealCode{}
		}
		t := args[0].(structure)
		b := args[1].([]value)
		var cells []value
		cells = append(cells, strCells("T<")...)
		cells = append(cells, wordCells(t[0])...)
		cells = append(cells, wordCells(t[1])...)
		loc := t[2].(*value)
		id, ok := fr.i.locIDs[loc]
		if !ok {
			id = len(fr.i.locIDs) + 1
			if loc == nil {
				id = 0
			}
			fr.i.locIDs[loc] = id
		}
		cells = append(cells, uint8('0'+id))
		cells = append(cells, strCells(">")...)
		cells = append(cells, strCells(args[2])...)
		cells = append(cells, strCells("#")...)
		return append(b, cells...)
	}
	externals["(time.Time).Format"] = func(fr *frame, args []value) value {
		if fr.i.path == nil || !fr.i.path.stubTimeFormat {
			return runRealCode{}
		}
		r := externals["(time.Time).AppendFormat"](fr, []value{args[0], []value(nil), args[1]})
		return mkString(r.([]value))
	}
}

// ---- recording sink files (os.Stdout, os.Stderr, vFile) ----

func init() {
	externals["(*os.File).Write"] = func(fr *frame, args []value) value {
		f := args[0].(*value)
		id, ok := fr.i.files[f]
		if !ok {
			panic(engineError{"not encodable: Write to an *os.File that is not a recording sink"})
		}
		b := args[1].([]value)
		fr.i.fileData[id] = append(fr.i.fileData[id], append([]value{}, b...))
		return tuple{len(b), iface{}}
	}
	externals["(*os.File).WriteString"] = func(fr *frame, args []value) value {
		return externals["(*os.File).Write"](fr, []value{args[0], strCells(args[1])})
	}
	externals["(*os.File).Close"] = func(fr *frame, args []value) value { return iface{} }
	externals["(*os.File).Fd"] = func(fr *frame, args []value) value { return uintptr(99) }
}

func init() {
	// context.WithValue checks comparability through internal/reflectlite;
	// build the valueCtx directly (keys used by the harnesses are comparable).
	externals["context.WithValue"] = func(fr *frame, args []value) value {
		if p, ok := args[0].(iface); !ok || p.t == nil {
			panic(targetPanic{iface{t: types.Typ[types.String], v: "cannot create context from nil parent"}})
		}
		if k, ok := args[1].(iface); !ok || k.t == nil {
			panic(targetPanic{iface{t: types.Typ[types.String], v: "nil key"}})
		}
		t := fr.i.prog.ImportedPackage("context").Type("valueCtx").Type()
		var cell value = structure{args[0], args[1], args[2]}
		return iface{t: types.NewPointer(t), v: &cell}
	}
}

func init() {
	// Random logger names: fresh and pairwise distinct (assumption: no
	// collision among the 52^6 random names; a collision makes With... return
	// an existing child, which is outside the claim).
	externals["github.com/hedzr/is/stringtool.RandomStringPure"] = func(fr *frame, args []value) value {
		fr.i.rndNames++
		s := fmt.Sprintf("rnd%03d", fr.i.rndNames)
		return s
	}
}

// ---- exact symbolic strconv.IsPrint (DESIGN.md 2.3) ----
//
// For a symbolic rune the table search of strconv.IsPrint would fork into one
// path per table interval. Instead the printable set is computed once per
// process by evaluating the host's strconv.IsPrint on every code point and
// the answer for a symbolic rune is the disjunction of the interval tests -
// an exact function, one decision.

var (
	printIvOnce sync.Once
	printIv     [][2]uint32
)

func printableIntervals() [][2]uint32 {
	printIvOnce.Do(func() {
		in := false
		var lo uint32
		for r := uint32(0); r <= 0x110000; r++ {
			p := r < 0x110000 && hostIsPrint(rune(r))
			if p && !in {
				lo, in = r, true
			} else if !p && in {
				printIv = append(printIv, [2]uint32{lo, r - 1})
				in = false
			}
		}
	})
	return printIv
}

func init() {
	externals["strconv.IsPrint"] = func(fr *frame, args []value) value {
		s, ok := args[0].(sv)
		if !ok {
			return runRealCode{}
		}
		tt := s.T.tt
		var ds []*Term
		for _, iv := range printableIntervals() {
			lo, hi := tt.Const(32, uint64(iv[0])), tt.Const(32, uint64(iv[1]))
			if iv[0] == iv[1] {
				ds = append(ds, tt.Eq(s.T, lo))
			} else {
				// runes are int32; the printable intervals are non-negative, compare unsigned
				ds = append(ds, tt.And(tt.App("bvuge", 0, s.T, lo), tt.App("bvule", 0, s.T, hi)))
			}
		}
		return norm(tt.Or(ds...), types.Bool)
	}
}
