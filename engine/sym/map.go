package sym

import (
	"go/types"
)

// omap is the interpreter's map: insertion-ordered entries (deterministic
// iteration, needed for re-execution of decision prefixes) with a native
// index for concrete keys of basic / pointer type. Keys may be symbolic: a
// lookup with a symbolic key, or in a map holding symbolic keys, compares
// against the entries one by one and forks on each comparison.
type omap struct {
	keyType types.Type
	ents    []*ment
	idx     map[value]*ment // concrete basic keys only
	symKeys bool            // some key is symbolic or not natively indexable
	basic   bool
}

type ment struct {
	key     value
	val     value
	deleted bool
}

func makeMap(kt types.Type, reserve int64) value {
	return &omap{keyType: kt, idx: make(map[value]*ment), basic: usesBuiltinMap(kt)}
}

func (m *omap) len() int {
	if m == nil {
		return 0
	}
	return len(m.ents)
}

// find returns the entry whose key equals k, deciding symbolic comparisons
// through the interpreter (which may fork).
func (m *omap) find(i *interpreter, k value) *ment {
	if m == nil {
		return nil
	}
	if m.basic && !m.symKeys && !isSym(k) {
		if _, isUptr := k.(uptr); !isUptr {
			return m.idx[k]
		}
	}
	for _, e := range m.ents {
		r := eqv(m.keyType, e.key, k)
		if b, ok := r.(bool); ok {
			if b {
				return e
			}
			continue
		}
		if i.truth(r) {
			return e
		}
	}
	return nil
}

func (m *omap) insert(i *interpreter, k, v value) {
	if e := m.find(i, k); e != nil {
		i.journalMapVal(m, e)
		e.val = v
		return
	}
	e := &ment{key: k, val: v}
	m.ents = append(m.ents, e)
	if m.basic && !isSym(k) {
		m.idx[k] = e
	} else {
		m.symKeys = true
	}
	if !m.basic {
		m.symKeys = true
	}
}

func (m *omap) delete(i *interpreter, k value) {
	e := m.find(i, k)
	if e == nil {
		return
	}
	e.deleted = true
	for j, x := range m.ents {
		if x == e {
			m.ents = append(m.ents[:j:j], m.ents[j+1:]...)
			break
		}
	}
	if m.basic && !isSym(k) {
		delete(m.idx, e.key)
	}
}

func (i *interpreter) journalMapVal(m *omap, e *ment) {}
