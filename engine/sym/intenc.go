package sym

import (
	"fmt"
	"math/big"
	"sort"
	"strings"
)

// Integer encoding (DESIGN.md 2.2): the same Terms are printed as SMT Int
// expressions that keep the mod-2^w semantics explicitly. Every bit-vector
// term of width w denotes an Int in [0, 2^w). Bit-wise operators are only
// supported with constant masks / shift counts; anything else makes the
// query not encodable in this mode (reported, never silently dropped).

func pow2(w int) string { return new(big.Int).Lsh(big.NewInt(1), uint(w)).String() }

type intPrinter struct {
	named map[int]string
	err   string
}

func (p *intPrinter) signed(e string, w int) string {
	return fmt.Sprintf("(let ((sx %s)) (ite (>= sx %s) (- sx %s) sx))", e, pow2(w-1), pow2(w))
}

func isPow2Mask(v uint64) (int, bool) { // v == 2^k - 1
	if v&(v+1) != 0 {
		return 0, false
	}
	k := 0
	for v != 0 {
		v >>= 1
		k++
	}
	return k, true
}

func (p *intPrinter) expr(t *Term) string {
	if n, ok := p.named[t.id]; ok {
		return n
	}
	switch t.op {
	case "const":
		if t.w == 0 {
			if t.val != 0 {
				return "true"
			}
			return "false"
		}
		return fmt.Sprintf("%d", t.val)
	case "var":
		return t.name
	}
	a := make([]string, len(t.args))
	for k, x := range t.args {
		a[k] = p.expr(x)
	}
	m := pow2(t.w)
	aw := 0
	if len(t.args) > 0 {
		aw = t.args[0].w
	}
	full := mask(t.w)
	switch t.op {
	case "bvadd":
		if s := t.args[0].hi + t.args[1].hi; s >= t.args[0].hi && s <= full {
			return fmt.Sprintf("(+ %s %s)", a[0], a[1]) // cannot wrap
		}
		return fmt.Sprintf("(mod (+ %s %s) %s)", a[0], a[1], m)
	case "bvsub":
		if t.args[0].lo >= t.args[1].hi {
			return fmt.Sprintf("(- %s %s)", a[0], a[1]) // cannot wrap
		}
		return fmt.Sprintf("(mod (- %s %s) %s)", a[0], a[1], m)
	case "bvmul":
		for s := 0; s < 2; s++ {
			if c := t.args[s]; c.isConst() && c.val != 0 && t.args[1-s].hi <= full/c.val {
				return fmt.Sprintf("(* %s %s)", a[0], a[1]) // cannot wrap
			}
		}
		return fmt.Sprintf("(mod (* %s %s) %s)", a[0], a[1], m)
	case "bvneg":
		return fmt.Sprintf("(mod (- %s) %s)", a[0], m)
	case "bvnot":
		return fmt.Sprintf("(- %s %s)", new(big.Int).Sub(new(big.Int).Lsh(big.NewInt(1), uint(t.w)), big.NewInt(1)).String(), a[0])
	case "bvudiv":
		if c := t.args[1]; c.isConst() && c.val != 0 {
			return fmt.Sprintf("(div %s %s)", a[0], a[1])
		}
		return fmt.Sprintf("(ite (= %s 0) %s (div %s %s))", a[1], new(big.Int).Sub(new(big.Int).Lsh(big.NewInt(1), uint(t.w)), big.NewInt(1)).String(), a[0], a[1])
	case "bvurem":
		if c := t.args[1]; c.isConst() && c.val != 0 {
			return fmt.Sprintf("(mod %s %s)", a[0], a[1])
		}
		return fmt.Sprintf("(ite (= %s 0) %s (mod %s %s))", a[1], a[0], a[0], a[1])
	case "bvult":
		return fmt.Sprintf("(< %s %s)", a[0], a[1])
	case "bvule":
		return fmt.Sprintf("(<= %s %s)", a[0], a[1])
	case "bvugt":
		return fmt.Sprintf("(> %s %s)", a[0], a[1])
	case "bvuge":
		return fmt.Sprintf("(>= %s %s)", a[0], a[1])
	case "bvslt":
		return fmt.Sprintf("(< %s %s)", p.signed(a[0], aw), p.signed(a[1], aw))
	case "bvsle":
		return fmt.Sprintf("(<= %s %s)", p.signed(a[0], aw), p.signed(a[1], aw))
	case "bvsgt":
		return fmt.Sprintf("(> %s %s)", p.signed(a[0], aw), p.signed(a[1], aw))
	case "bvsge":
		return fmt.Sprintf("(>= %s %s)", p.signed(a[0], aw), p.signed(a[1], aw))
	case "=", "and", "or", "not", "ite":
		return "(" + t.op + " " + strings.Join(a, " ") + ")"
	case "extract":
		if t.p2 == 0 && t.args[0].hi <= mask(t.p1+1) {
			return a[0] // the value already fits
		}
		return fmt.Sprintf("(mod (div %s %s) %s)", a[0], pow2(t.p2), pow2(t.p1-t.p2+1))
	case "zext":
		return a[0]
	case "sext":
		return fmt.Sprintf("(mod %s %s)", p.signed(a[0], aw), m)
	case "bvand":
		for s := 0; s < 2; s++ {
			if c := t.args[s]; c.isConst() {
				if k, ok := isPow2Mask(c.val); ok {
					return fmt.Sprintf("(mod %s %s)", a[1-s], pow2(k))
				}
			}
		}
	case "bvshl":
		if c := t.args[1]; c.isConst() {
			if c.val >= uint64(t.w) {
				return "0"
			}
			return fmt.Sprintf("(mod (* %s %s) %s)", a[0], pow2(int(c.val)), m)
		}
	case "bvlshr":
		if c := t.args[1]; c.isConst() {
			if c.val >= uint64(t.w) {
				return "0"
			}
			return fmt.Sprintf("(div %s %s)", a[0], pow2(int(c.val)))
		}
	case "bvsdiv", "bvsrem":
		// truncated division on the signed readings
		x, y := p.signed(a[0], aw), p.signed(a[1], aw)
		q := fmt.Sprintf("(let ((dx %s) (dy %s)) (ite (= dy 0) 0 (let ((qq (div (abs dx) (abs dy)))) (ite (= (< dx 0) (< dy 0)) qq (- qq)))))", x, y)
		if t.op == "bvsdiv" {
			return fmt.Sprintf("(mod %s %s)", q, m)
		}
		return fmt.Sprintf("(mod (let ((dx2 %s) (dy2 %s)) (- dx2 (* dy2 %s))) %s)", x, y, q, m)
	}
	p.err = "operator " + t.op + " with non-constant operand is not encodable in the integer encoding"
	return "0"
}

// smtScriptInt is smtScript in the integer encoding.
func smtScriptInt(asserts []*Term) (script string, vars []*Term, err string) {
	refs := map[int]int{}
	var order []*Term
	var visit func(t *Term)
	visit = func(t *Term) {
		refs[t.id]++
		if refs[t.id] > 1 {
			return
		}
		for _, a := range t.args {
			visit(a)
		}
		order = append(order, t)
	}
	for _, a := range asserts {
		visit(a)
	}
	for _, t := range order {
		if t.op == "var" {
			vars = append(vars, t)
		}
		if t.w == wFP {
			return "", nil, "floating-point term in the integer encoding"
		}
	}
	sort.Slice(vars, func(i, j int) bool { return vars[i].name < vars[j].name })
	var sb strings.Builder
	for _, v := range vars {
		if v.w == 0 {
			fmt.Fprintf(&sb, "(declare-const %s Bool)\n", v.name)
			continue
		}
		fmt.Fprintf(&sb, "(declare-const %s Int)\n(assert (and (<= 0 %s) (< %s %s)))\n", v.name, v.name, v.name, pow2(v.w))
	}
	p := &intPrinter{named: map[int]string{}}
	for _, t := range order {
		if refs[t.id] > 1 && len(t.args) > 0 {
			e := p.expr(t)
			n := fmt.Sprintf("t%d", t.id)
			so := "Int"
			if t.w == 0 {
				so = "Bool"
			}
			fmt.Fprintf(&sb, "(define-fun %s () %s %s)\n", n, so, e)
			p.named[t.id] = n
		}
	}
	for _, a := range asserts {
		fmt.Fprintf(&sb, "(assert %s)\n", p.expr(a))
	}
	return sb.String(), vars, p.err
}
