package sym

import (
	"strings"

	"golang.org/x/tools/go/ssa"
)

// initDenied reports whether the package initializer of pkg is skipped.
// Environment packages are not initialised: their API is stubbed instead.
func initDenied(path string) bool {
	switch path {
	case "runtime", "syscall", "os", "reflect", "sync", "sync/atomic", "unsafe",
		"os/signal", "os/exec", "os/user", "net", "log/syslog",
		"errors", "math/rand", "math/rand/v2", "crypto/rand", "testing", "flag", "runtime/debug",
		"io/fs", "path/filepath", "context":
		return true
	}
	if strings.HasPrefix(path, "internal/") || strings.HasPrefix(path, "runtime/") ||
		strings.HasPrefix(path, "golang.org/x/sys") || strings.HasPrefix(path, "vendor/") ||
		strings.HasPrefix(path, "crypto/") || strings.HasPrefix(path, "net/") {
		return true
	}
	return false
}

func isPkgInit(fn *ssa.Function) bool {
	return fn.Pkg != nil && fn.Name() == "init" && fn.Synthetic == "package initializer"
}

func isRepoPkg(path string) bool {
	return strings.HasPrefix(path, "github.com/hedzr/logg")
}

func isHarnessPkg(path string) bool { return isRepoPkg(path) }

// sharedPkg reports whether a package's globals are immutable after
// initialisation (pure tables) and may be shared by all path interpreters.
func sharedPkg(path string) bool {
	if initDenied(path) {
		return false
	}
	switch path {
	case "unicode", "unicode/utf8", "unicode/utf16", "strconv", "strings", "bytes", "math", "math/bits",
		"sort", "slices", "io", "bufio", "regexp", "regexp/syntax", "html", "path", "fmt",
		"golang.org/x/net/html", "golang.org/x/net/html/atom", "cmp", "iter", "maps",
		"encoding", "encoding/binary", "encoding/base64", "encoding/hex", "encoding/json",
		"compress/flate", "compress/zlib", "debug/elf", "debug/buildinfo", "debug/dwarf",
		"hash", "hash/crc32", "hash/adler32", "text/tabwriter", "math/big", "go/token",
		"golang.org/x/term", "golang.org/x/crypto/ssh/terminal", "container/list", "unique", "weak",
		"text/template", "text/template/parse", "mime", "archive/tar", "archive/zip", "embed",
		"encoding/xml", "encoding/gob", "encoding/csv", "encoding/asn1", "encoding/pem",
		"image", "image/color", "html/template", "go/ast", "go/scanner", "go/parser", "go/format", "go/printer", "go/doc", "go/build":
		return true
	}
	return false
}
