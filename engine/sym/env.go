package sym

import (
	"strings"

	"golang.org/x/tools/go/ssa"
)

// initDenied reports whether the package initializer of pkg is skipped.
// Environment packages are not initialised: their API is stubbed instead.
func initDenied(path string) bool {
	switch path {
	case "runtime", "syscall", "os", "reflect", "sync", "sync/atomic", "unsafe",
		"os/signal", "os/exec", "os/user", "net", "log/syslog",
		"errors", "math/rand", "math/rand/v2", "crypto/rand", "testing", "flag", "runtime/debug",
		"io/fs", "path/filepath", "context":
		return true
	}
	if strings.HasPrefix(path, "internal/") || strings.HasPrefix(path, "runtime/") ||
		strings.HasPrefix(path, "golang.org/x/sys") || strings.HasPrefix(path, "vendor/") ||
		strings.HasPrefix(path, "crypto/") || strings.HasPrefix(path, "net/") {
		return true
	}
	return false
}

func isPkgInit(fn *ssa.Function) bool {
	return fn.Pkg != nil && fn.Name() == "init" && fn.Synthetic == "package initializer"
}

func isRepoPkg(path string) bool {
	return strings.HasPrefix(path, "github.com/hedzr/logg")
}

func isHarnessPkg(path string) bool { return isRepoPkg(path) }
