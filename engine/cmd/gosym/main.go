package main

import (
	"encoding/json"
	"flag"
	"fmt"
	"os"
	"strconv"
	"strings"

	"verif/engine/sym"
)

func main() {
	dir := flag.String("repo", "/repo", "repository root")
	pkg := flag.String("pkg", "./slog", "package pattern")
	hdir := flag.String("harness", "/verif/harness", "harness dir")
	fn := flag.String("fn", "", "harness function")
	concrete := flag.Bool("concrete", false, "run concretely (no solver)")
	workers := flag.Int("j", 0, "workers")
	solver := flag.String("solver", "z3", "z3 | z3-new | cvc5")
	timeout := flag.Int("timeout", 10000, "per-query timeout ms")
	maxPaths := flag.Int("maxpaths", 0, "stop after this many paths (reported as bound failure)")
	out := flag.String("out", "", "write result JSON here")
	qlog := flag.String("qlog", "", "log deciding queries")
	fallback := flag.String("fallback", "", "second solver for queries the first answers unknown")
	maxSteps := flag.Int64("maxsteps", 0, "instruction limit per path")
	intMode := flag.Bool("int", false, "integer encoding instead of bit-vectors")
	funcs := flag.Bool("funcs", false, "include names of executed repo functions in the result")
	params := flag.String("params", "", "harness bounds: name=val,name=val")
	flag.Parse()
	pm := map[string]int{}
	for _, kv := range strings.Split(*params, ",") {
		if k, v, ok := strings.Cut(kv, "="); ok {
			n, _ := strconv.Atoi(v)
			pm[k] = n
		}
	}
	p, err := sym.Load(*dir, *pkg, *hdir)
	if err != nil {
		fmt.Fprintln(os.Stderr, "load:", err)
		os.Exit(2)
	}
	if *concrete {
		os.Exit(sym.RunConcrete(p, *fn))
	}
	st, err := sym.Explore(p, sym.Config{Harness: *fn, Workers: *workers, SolverKind: *solver,
		TimeoutMS: *timeout, MaxPaths: *maxPaths, QueryLog: *qlog, Params: pm, IntMode: *intMode, Fallback: *fallback, MaxSteps: *maxSteps})
	if err != nil {
		fmt.Fprintln(os.Stderr, "explore:", err)
		os.Exit(2)
	}
	sym.DumpStepProf()
	sum := st.Summary()
	if *funcs {
		sum["func_names"] = sym.SortedKeys(st.FuncsExecuted)
	}
	b, _ := json.MarshalIndent(sum, "", " ")
	if *out != "" {
		os.WriteFile(*out, b, 0o644)
	}
	if *out == "" {
		fmt.Println(string(b))
	}
}
