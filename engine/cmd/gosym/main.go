package main

import (
	"encoding/json"
	"flag"
	"fmt"
	"os"
	"strconv"
	"strings"

	"verif/engine/sym"
)

func main() {
	dir := flag.String("repo", "/repo", "repository root")
	pkg := flag.String("pkg", "./slog", "package pattern")
	hdir := flag.String("harness", "/verif/harness", "harness dir")
	fn := flag.String("fn", "", "harness function")
	concrete := flag.Bool("concrete", false, "run concretely (no solver)")
	workers := flag.Int("j", 0, "workers")
	solver := flag.String("solver", "z3", "z3 | z3-new | cvc5")
	timeout := flag.Int("timeout", 10000, "per-query timeout ms")
	maxPaths := flag.Int("maxpaths", 0, "stop after this many paths (reported as bound failure)")
	out := flag.String("out", "", "write result JSON here")
	qlog := flag.String("qlog", "", "log deciding queries")
	fallback := flag.String("fallback", "", "second solver for queries the first answers unknown")
	replayFile := flag.String("replay", "", "run the harness once, concretely, on the intrinsic values of this replay file and print the observations")
	maxSteps := flag.Int64("maxsteps", 0, "instruction limit per path")
	intMode := flag.Bool("int", false, "integer encoding instead of bit-vectors")
	funcs := flag.Bool("funcs", false, "include names of executed repo functions in the result")
	params := flag.String("params", "", "harness bounds: name=val,name=val")
	flag.Parse()
	pm := map[string]int{}
	for _, kv := range strings.Split(*params, ",") {
		if k, v, ok := strings.Cut(kv, "="); ok {
			n, _ := strconv.Atoi(v)
			pm[k] = n
		}
	}
	p, err := sym.Load(*dir, *pkg, *hdir)
	if err != nil {
		fmt.Fprintln(os.Stderr, "load:", err)
		os.Exit(2)
	}
	if *concrete {
		os.Exit(sym.RunConcrete(p, *fn))
	}
	var rp []sym.ReplayItem
	if *replayFile != "" {
		b, err := os.ReadFile(*replayFile)
		if err != nil {
			fmt.Fprintln(os.Stderr, err)
			os.Exit(2)
		}
		var rf struct {
			Harness string            `json:"harness"`
			Params  map[string]int    `json:"params"`
			Items   []sym.ReplayItem  `json:"items"`
		}
		if err := json.Unmarshal(b, &rf); err != nil {
			fmt.Fprintln(os.Stderr, err)
			os.Exit(2)
		}
		rp = rf.Items
		if rp == nil {
			rp = []sym.ReplayItem{}
		}
		*fn = rf.Harness
		for k, v := range rf.Params {
			pm[k] = v
		}
		*workers = 1
	}
	st, err := sym.Explore(p, sym.Config{Replay: rp, Harness: *fn, Workers: *workers, SolverKind: *solver,
		TimeoutMS: *timeout, MaxPaths: *maxPaths, QueryLog: *qlog, Params: pm, IntMode: *intMode, Fallback: *fallback, MaxSteps: *maxSteps})
	if err != nil {
		fmt.Fprintln(os.Stderr, "explore:", err)
		os.Exit(2)
	}
	if rp != nil {
		for _, l := range st.ReplayOut {
			fmt.Println(l)
		}
		for _, v := range st.Violations {
			if v.Label == "panic" {
				fmt.Println("VPANIC")
			} else {
				fmt.Println("VFAIL " + v.Label)
			}
		}
		if len(st.EngineErrors) > 0 {
			fmt.Println("VENGINE-ERROR " + st.EngineErrors[0])
			os.Exit(2)
		}
		fmt.Println("VDONE")
		return
	}
	sym.DumpStepProf()
	sum := st.Summary()
	if *funcs {
		sum["func_names"] = sym.SortedKeys(st.FuncsExecuted)
	}
	b, _ := json.MarshalIndent(sum, "", " ")
	if *out != "" {
		os.WriteFile(*out, b, 0o644)
	}
	if *out == "" {
		fmt.Println(string(b))
	}
}
