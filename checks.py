"""Registry of checks: per property, the harnesses, their bounds per tier,
the reachability witnesses that must be hit, and the evidence texts."""

TECH = ("bounded symbolic execution of the real go/ssa of /repo (re-loaded on every run) with every branch and "
        "assertion decided by z3 over bit-vectors; counterexamples replayed natively")

CHECKS = {
    "C01": {
        "explanation": "Symbolic execution (go/ssa -> SMT-LIB2 bit-vectors, z3) of Level.Enabled / Entry.Enabled / "
                       "EnabledContext, SetLevel, RegisterLevel and of all 61 public entry points down to the recording "
                       "writers. Harness A: logger level L and severity r are unconstrained 64-bit values, registrations "
                       "(value, treated-as, presence of the option) and the debug-mode history are symbolic; the assertion "
                       "Enabled(r) == rule(L, r, debug, registry) is discharged on every path. Harness B: for each entry "
                       "point (selector enumerated by the solver) and symbolic L: a Write happens iff the rule admits the "
                       "entry point's severity.",
        "bounds": {"quick": "A: 1 RegisterLevel call (symbolic value, treated-as in 0..11, option present or not), all int64 L/r; B: 61 entry points, all int64 L, "
                            "LogAttrs/Logit severities -1..13, message 'm', colored+JSON",
                   "thorough": "A: <=2 RegisterLevel calls; B: as quick plus one registered custom level"},
        "outside": "loggers built with a log/slog.Handler option; SetDefault loggers that are neither *Entry nor *logimp; -tags verbose builds",
        "assumptions": ["environment stubs: sync.Pool (LIFO), sync/atomic (sequential), time.Now (fixed instant), runtime.Callers (engine call stack)",
                        "process is a production process (not go test, no debugger, DEBUG unset)"],
        "runs": [
            {"harness": "VH_C01A", "quick": {"regs": 1}, "thorough": {"regs": 2},
             "covers": ["C01A:reached", "C01A:admitted", "C01A:refused"]},
            {"harness": "VH_C01B", "quick": {"regs": 0}, "thorough": {"regs": 1},
             "covers": ["C01B:reached", "C01B:emitted"]},
        ],
    },
    "C11": {
        "explanation": "Symbolic execution of SetJSONMode/SetColorMode/WithJSONMode/WithColorMode, the New(..., WithJSONMode/WithColorMode) "
                       "options, newentry inheritance, the getters and the print path. One inductive step: three loggers of a tree in "
                       "arbitrary states satisfying the invariant not(useJSON and useColor) (27 pre-states, enumerated by the solver), one "
                       "arbitrary mode call with 0/1/2 symbolic boolean arguments on any of them; the post-state of every logger must equal "
                       "the three-state specification machine, getters must agree, With... must return a new child and leave the receiver "
                       "unchanged, and a probe record from every logger must have the shape of its state (JSON object line / ESC-coloured / "
                       "logfmt). A bounded-history twin from New confirms reachability.",
        "bounds": {"quick": "inductive step (steps=1) from arbitrary states; history twin steps=2 from New",
                   "thorough": "as quick (with eight operations, two steps from an arbitrary state and three steps from the initial state did not finish in 15 minutes; the one-step form from an arbitrary state is the inductive argument)"},
        "outside": "probe record content beyond its shape (C04-C06); user marshallers",
        "assumptions": ["environment stubs as in C01", "the record shape test classifies by first/last bytes and presence of ESC"],
        "runs": [
            {"harness": "VH_C11", "quick": {"arbitrary": 1, "steps": 1}, "thorough": {"arbitrary": 1, "steps": 1},
             "covers": ["C11:steps-done", "C11:probed"]},
            {"harness": "VH_C11", "quick": {"arbitrary": 0, "steps": 2}, "thorough": {"arbitrary": 0, "steps": 2},
             "covers": ["C11:steps-done", "C11:probed"]},
        ],
    },
    "C12": {
        "explanation": "Symbolic execution of every public entry point (61, selector enumerated by the solver) down to the writers and to the "
                       "tail of logContext, with the logger level an unconstrained 64-bit value, inTesting a symbolic boolean, and all Flags "
                       "bits that the print path does not read symbolic (in particular LnoInterrupt and Linterruptalways). os.Exit is a "
                       "recording stub, panic is interpreted and recovered by the harness. Asserted: termination iff admitted and severity "
                       "in {Panic, Fatal} and not all(LnoInterrupt) and (not testing or any(Linterruptalways)); Panic = Go panic with the "
                       "message as value, Fatal = os.Exit(-3); the complete record is on the error writer before termination; no other "
                       "severity terminates.",
        "bounds": {"quick": "a real context or a nil context on a logger with registered context keys; message \"m\" or a text with markup and entities; severities of LogAttrs/Logit incl. two registered levels gated as Panic and as Fatal; recorded package level arbitrary; LogAttrs/Logit with every argument shape; 61 entry points x 3 formats x all int64 levels x testing/production x all combinations of the non-printing flag bits; "
                            "LogAttrs/Logit severities -1..13; message 'm'",
                   "thorough": "same (the space is covered completely at quick)"},
        "outside": "the exit status as seen by the parent process (253 = OS truncation of -3); loggers with a log/slog.Handler option",
        "assumptions": ["environment stubs as in C01", "os.Exit modelled as a non-returning call that runs no deferred function"],
        "runs": [
            {"harness": "VH_C12", "covers": ["C12:reached", "C12:panicked", "C12:exited"]},
        ],
    },
    "C17": {
        "explanation": "Symbolic execution of RegisterLevel and its options, String, ShortTag, ParseLevel (with strings.ToLower), "
                       "Marshal/UnmarshalText, Marshal/UnmarshalJSON (fmt %q computed exactly through the real strconv.Quote), Level.Enabled "
                       "and dualWriter.Get. R: symbolic value (all int64) and symbolic ASCII title: exact collisions are refused, refusals "
                       "have a reason, refused calls leave all seven tables unchanged (snapshot compared entry by entry). N: after a "
                       "successful registration with a symbolic title all name/text/JSON round trips return the level. T: symbolic option "
                       "set: tags, gating as the treated-as level (all int64 logger levels), routing to the error device. B: the same round "
                       "trips and ShortTag widths for the 12 built-in levels.",
        "bounds": {"quick": "L: name / short tag / record looked up before the value is registered; R also with two registrations (1-byte titles); titles: every ASCII string of length 1..3 (R) / 1..2 (N); 1 registration; all int64 values",
                   "thorough": "R: two registrations with titles <= 2 bytes (two registrations with titles <= 4 bytes did not finish in 15 minutes); N: titles <= 3 bytes"},
        "outside": "non-ASCII titles (Unicode case folding); short tags longer than the slot width",
        "assumptions": ["environment stubs as in C01"],
        "runs": [
            {"harness": "VH_C17B", "covers": ["C17B:done"]},
            {"harness": "VH_C17R", "quick": {"regs": 1, "title": 3}, "thorough": {"regs": 1, "title": 3},
             "covers": ["C17R:collision", "C17R:refused", "C17R:registered"]},
            {"harness": "VH_C17R", "quick": {"regs": 2, "title": 1}, "thorough": {"regs": 2, "title": 2}, "covers": ["C17R:collision", "C17R:refused", "C17R:registered"]},
            {"harness": "VH_C17N", "quick": {"title": 2}, "thorough": {"title": 3}, "covers": ["C17N:registered"]},
            {"harness": "VH_C17L", "covers": ["C17L:registered"]},
            {"harness": "VH_C17T", "covers": ["C17T:registered", "C17T:done"]},
        ],
    },
    "C20": {
        "explanation": "Symbolic execution of shortDur/shortDurFormat/fmtSeconds/fmtMsec/fmtFrac/fmtInt and of ParseDuration/leadingInt/"
                       "leadingFraction/unitMap in the integer encoding (SMT Int with explicit mod 2^64; z3 5.1.0 with cvc5 as fallback for totality, cvc5 with z3 as fallback for the round trips). The duration is one "
                       "unconstrained 64-bit value; every index into the fixed 32-byte buffer is an implicit check; paths fork on the digit "
                       "count of each component. On each formatter path the produced bytes are '0'+(v mod 10) terms and the real parser is "
                       "run on that symbolic string: it must return exactly d. The parser's single floating-point expression is encoded as "
                       "integer arithmetic where that is provably exact (integer-valued constant factor, product below 2^53) and otherwise as "
                       "IEEE-754 terms (fp.mul/fp.div/to_fp/fp.to_ubv, round-to-nearest-even, truncation) decided by the solvers' floating-point "
                       "theory in the bit-vector encoding; conversions back to integers are only encoded where provably in range (host-side "
                       "interval arithmetic on monotone operations, else a solver proof). D: the fraction kernel, differentially against "
                       "time.ParseDuration executed on the same symbolic text.",
        "bounds": {"quick": "formatter totality: all int64, both styles; round trip: fractional style on ALL int64; compact style on the 1000 values next to MinInt64, MaxInt64 and 0; parser agreement with time.ParseDuration on all strings of <= 2 bytes (all byte values); fraction kernel D: texts <0|empty|1>.<1..12 arbitrary digits><h|m|s|ms|us|ns>, both parsers executed, float64 arithmetic as integer arithmetic where provably exact and in the solvers' IEEE-754 theory otherwise; M: optional sign and 1..3 components of 7 arbitrary digits + h (the running total next to and beyond the int64/uint64 boundaries), both parsers",
                   "thorough": "D also with the integer part 2562047 (hours next to the int64 overflow boundary); M with up to 4 components"},
        "outside": "parser agreement beyond 2-byte strings other than the D and M families (3 arbitrary bytes did not finish in 15 minutes: the error paths quote the input rune by rune); the round trip of the compact style on ALL int64 (it did not finish in 16 minutes; the extremes and the fractional style on all int64 are checked)",
        "assumptions": ["integer encoding: bit-wise operators only with constant masks/shift counts"],
        "runs": [
            {"harness": "VH_C20F", "pkg": "slog/internal/times", "params": {"frac": 1, "roundtrip": 0},
             "args": ["-int", "-solver", "z3-new", "-fallback", "cvc5"], "covers": ["C20F:formatted"]},
            {"harness": "VH_C20F", "pkg": "slog/internal/times", "params": {"frac": 0, "roundtrip": 0},
             "args": ["-int", "-solver", "z3-new", "-fallback", "cvc5"], "covers": ["C20F:formatted"]},
            {"harness": "VH_C20F", "pkg": "slog/internal/times", "params": {"frac": 1, "roundtrip": 1},
             "args": ["-int", "-solver", "cvc5", "-fallback", "z3-new"], "covers": ["C20F:formatted", "C20F:parsed"]},
            {"harness": "VH_C20F", "pkg": "slog/internal/times", "params": {"frac": 0, "roundtrip": 1, "extremes": 1},
             "args": ["-int", "-solver", "cvc5", "-fallback", "z3-new"], "covers": ["C20F:formatted", "C20F:parsed"]},
            {"harness": "VH_C20P", "pkg": "slog/internal/times", "quick": {"len": 2}, "thorough": {"len": 2},
             "covers": ["C20P:parsed", "C20P:std-accepts", "C20P:only-ours-accepts"]},
            {"harness": "VH_C20D", "pkg": "slog/internal/times", "quick": {"digits": 12, "big": 0}, "thorough": {"digits": 12, "big": 1},
             "args": ["-fallback", "cvc5"], "covers": ["C20D:parsed", "C20D:accepted"]},
            {"harness": "VH_C20M", "pkg": "slog/internal/times", "quick": {"parts": 3, "digits": 7}, "thorough": {"parts": 4, "digits": 7},
             "args": ["-fallback", "cvc5"], "covers": ["C20M:parsed", "C20M:accepted"]},
        ],
    },
    "C18": {
        "explanation": "Symbolic execution of Safety/checkpath, Add/RemoveKnownPathMapping, IsAnyBitsSet and of the standard library's "
                       "strings.HasPrefix/ReplaceAll/IndexRune and filepath.IsAbs/Rel/Clean/Join on symbolic path strings. The home "
                       "directory name and the registered mapping are symbolic, the working directory is /tmp, the privacy flags are "
                       "symbolic, the input is any string over {/ . a b ~} (relative, absolute, or under /Volumes/). Every iteration order "
                       "of the mapping table is explored (the engine forks over all permutations of the range). Asserted: no panic; with "
                       "the privacy flag on a path under a protected directory is not reported under that directory; a path outside all "
                       "mappings is unchanged or a shorter relative path denoting the same file. R: the caller field of a record - a record written "
                       "from a call site whose directory is registered as protected, in 4 logger configurations, with the privacy and caller "
                       "flags on and every combination of the other ten flag bits: the payload must name the file and must not contain the directory.",
        "bounds": {"quick": "replacements shorter or longer than the prefix; R: 4 configurations x 1024 flag combinations; directory names of 1..2 letters over {a,b}; input paths up to 4 bytes over {/,.,a,b,~} (up to 2 after /Volumes/); 0..1 extra mapping added and optionally removed",
                   "thorough": "as quick for plain mappings (input paths up to 6 bytes with 0..2 extra mappings did not finish in 15 minutes once relative prefixes and long replacements were added); the regexp run with directory names 1..2 and paths up to 4 bytes"},
        "outside": "regexp mappings (table kept empty: regexp execution on symbolic strings is not encoded); Windows paths; longer paths",
        "assumptions": ["os.Getwd returns /tmp (engine stub; the native replayer runs in /tmp)"],
        "replay_repeat": 64,
        "runs": [
            {"harness": "VH_C18", "quick": {"dir": 2, "path": 4, "maps": 1, "relmaps": 1}, "thorough": {"dir": 2, "path": 4, "maps": 1, "relmaps": 1},
             "covers": ["C18:returned", "C18:protected", "C18:outside"]},
            {"harness": "VH_C18R", "covers": ["C18R:written"]},
            {"harness": "VH_C18", "quick": {"dir": 1, "path": 3, "maps": 0, "regexp": 1}, "thorough": {"dir": 2, "path": 4, "maps": 1, "regexp": 1},
             "covers": ["C18:returned", "C18:protected"]},
        ],
    },
    "C19": {
        "explanation": "Lock-step symbolic execution of the 20 listed PrintCtx methods (with grow, tryGrowByReslice, growSlice, readSlice) "
                       "and of the standard library's bytes.Buffer (its real SSA is the reference, not a model). Both start from the same "
                       "symbolic pre-filled content and spare capacity (NewPrintCtx/NewBuffer or the String constructors), receive the "
                       "same operation (selector enumerated by the solver) with symbolic byte/rune/string arguments, sizes including "
                       "negative and beyond-length values, and scripted readers/writers (short counts, errors, negative counts); after "
                       "every step the return values, error identity classes, panic-or-not (and message after the package prefix), Len, "
                       "String and Bytes must agree.",
        "bounds": {"quick": "a run with well-formed multi-byte content (U+FFFD, 2- and 4-byte runes) in front of the arbitrary bytes; pre-fill <= 2 bytes, arguments <= 2 bytes, spare capacity 0..2; sequences of 1 operation (fill 2), 2 operations (fill 1), and a canned read (none/ReadByte/ReadRune) followed by 1 operation; after every step copies of both buffers are probed with UnreadRune and UnreadByte so the last-read state is observable; Grow around 0, 64 and 512",
                   "thorough": "pre-fill <= 3, arguments <= 3 for single steps; sequences of 2 operations with fill 2; canned read followed by 2 operations"},
        "outside": "capacities (not observable through the listed API); longer sequences and contents",
        "assumptions": ["both implementations run on the same interpreter, so an interpreter error common to both would cancel out (translation validated by the selftest)"],
        "runs": [
            {"harness": "VH_C19", "quick": {"fill": 2, "arg": 2, "steps": 1, "spare": 2}, "thorough": {"fill": 3, "arg": 3, "steps": 1, "spare": 2},
             "covers": ["C19:done"]},
            {"harness": "VH_C19", "quick": {"fill": 1, "arg": 1, "steps": 2, "spare": 1}, "thorough": {"fill": 2, "arg": 1, "steps": 2, "spare": 1},
             "covers": ["C19:done"]},
            {"harness": "VH_C19", "quick": {"fill": 1, "arg": 1, "steps": 1, "spare": 1, "prelude": 1, "runes": 1}, "thorough": {"fill": 1, "arg": 1, "steps": 2, "spare": 1, "runes": 1}, "covers": ["C19:done"]},
            {"harness": "VH_C19", "quick": {"fill": 2, "arg": 1, "steps": 1, "spare": 1, "prelude": 1}, "thorough": {"fill": 2, "arg": 0, "steps": 2, "spare": 0, "prelude": 1},
             "covers": ["C19:done"]},
        ],
    },
    "C16": {
        "explanation": "Symbolic execution of PrintCtx.appendTimestamp, setentry, SetUTCMode/SetTimeFormat, printTimestamp in the three formats, "
                       "with (time.Time).AppendFormat replaced by a recording stub whose token is an injective image of (wall, ext, zone, "
                       "layout). The record's instant is time.Unix(sec, nsec) for symbolic sec and nsec in one of three zones, passed to "
                       "WriteThru; the date/time/microseconds/local-time flag bits are symbolic; the UTC mode is reached through SetUTCMode "
                       "calls with 0/1/2 symbolic booleans; the layout through SetTimeFormat with 0/1/2 arguments including \"\". The oracle "
                       "formats the expected instant (converted with UTC() iff mode==UTC or (mode unset and LlocalTime clear)) with the "
                       "expected layout through the same function, so equality of bytes is equality of instant representation, zone and "
                       "layout; without a logger layout the layout must be one of the library's flag-selected layouts containing the "
                       "selected parts. JSON/logfmt wrap the text in quotes after the time key, colored appends '|'.",
        "bounds": {"quick": "all sec in (-2^40, 2^40), all nsec, 3 zones, 16 flag combinations, <=1 SetUTCMode call, <=2 layouts, 3 formats",
                   "thorough": "<=2 SetUTCMode calls"},
        "outside": "Parse(layout, Format(layout, t)) == t for all instants/zones/layouts: the standard library's calendar arithmetic is not encoded "
                   "(natively the replay runs the real formatter)",
        "assumptions": ["time formatting stubbed by an injective token (engine); time.Unix/In/UTC are the real code"],
        "runs": [
            {"harness": "VH_C16", "quick": {"utccalls": 1}, "thorough": {"utccalls": 2}, "covers": ["C16:printed"]},
        ],
    },
    "C03": {
        "explanation": "Symbolic execution of all of writers.go (dualWriter, LWs, logwr, filewr), the Entry writer methods and their Opt twins "
                       "through New(...), findWriter and printOut. A pool of four distinct writers (two plain io.Writer, one LogWriter, one "
                       "LogWriter+LevelSettable) plus the recording stdout/stderr sinks; a sequence of operations chosen by the solver among "
                       "the 11 writer operations with any pool writer or nil and a level among built-in and two registered custom levels "
                       "(one for the error device); the harness keeps the configuration the sequence denotes (set replaces, add appends, "
                       "remove deletes, reset restores defaults) and a probe record of a chosen severity must reach exactly the writers the "
                       "routing rule selects, each once; a LevelSettable destination must have been told the severity before its Write.",
        "bounds": {"quick": "probe records incl. the blank Print-severity record; sequences of <=2 operations on a fresh logger, 10 probe severities; New(...) with <=3 of the nine writer option constructors (set/add normal and error writers, add/remove/reset per-level writers for two levels, reset all); inductive step: ONE operation from every configuration with <=2 normal, <=1 error and <=1 per-level (Info) writers over the pool (136080 states x operations x probes), which covers histories of any length over such configurations",
                   "thorough": "as quick (sequences of 3 operations take about an hour: 4.5 million paths; they ran clean once, on an earlier version of the harness, and are not registered)"},
        "outside": "longer sequences; OffLevel probes (discarded by design)",
        "assumptions": ["os.Stdout/os.Stderr are recording sinks"],
        "runs": [
            {"harness": "VH_C03", "quick": {"steps": 2}, "thorough": {"steps": 2}, "covers": ["C03:probed"]},
            {"harness": "VH_C03N", "quick": {"opts": 3}, "thorough": {"opts": 3}, "covers": ["C03N:probed"]},
            {"harness": "VH_C03I", "covers": ["C03I:probed"]},
        ],
    },
    "C13": {
        "explanation": "Symbolic execution of printOut (error branch), LWs.Write, errors.Join, the nested Entry.Warn diagnostic, appendError, "
                       "gating and dualWriter.Get. Configurations (1-2 normal, 1-2 error, 0-1 per-level writer for Info or Warn; logger level "
                       "among Error/Warn/Info/Debug/Off/Always) and the severity of each call are enumerated by the solver; every Write "
                       "attempt consults a fresh symbolic fault bit, so each path stands for one assignment of fail/succeed to every "
                       "attempt and all assignments are covered. Per call: returns normally; every selected destination attempted once, in "
                       "order, with the identical complete payload; at most one diagnostic record, a warning, to the warning destinations, "
                       "none when the failing record was a warning or warnings are not admitted; attempts bounded by |selected|+|warning "
                       "set|; a final call with faults switched off is delivered normally (no sticky state).",
        "bounds": {"quick": "failing destinations report a comparable or an uncomparable (slice-typed) error; severities incl. Print-severity records with messages m / empty / two newlines; 1 faulty call + 1 recovery call; 6 severities", "thorough": "as quick (2 failing calls before recovery did not finish in 15 minutes with the present severity, message and error-kind dimensions)"},
        "outside": "longer call sequences; writers that panic",
        "assumptions": ["os.Stdout/os.Stderr are recording sinks"],
        "runs": [
            {"harness": "VH_C13", "quick": {"calls": 1}, "thorough": {"calls": 1}, "covers": ["C13:diagnostic", "C13:recovered"]},
        ],
    },
    "C02": {
        "explanation": "Symbolic execution of argsToAttrs, NewAttr/Group/buildAttrs, Println, log1/logContext/collectArgs, print/printImpl, "
                       "serializeAttrs, kvp/gkvp.SerializeValueTo, appendValue and the per-kind renderers, printOut, dualWriter.Get, "
                       "LWs.Write, and (colored mode) the real x/net/html-based translator. The argument list has 0..N elements whose kind "
                       "the solver chooses among 14 (string incl. empty, int, bool, nil, error, []byte, struct via the fallback "
                       "formatter, Attr with symbolic key, Attrs (empty or not), []Attr, Group nested to the depth bound incl. empty "
                       "groups, a nil Attr interface, Duration, Stringer) - which covers dangling keys, non-string values in key "
                       "position, empty keys and a non-string first argument to Println; the message is a symbolic byte string when there "
                       "are no further arguments; 3 formats; verbs Error..Fail, Print, Println, Panic (no-interrupt). Asserted: the call "
                       "returns; admitted => one Write per selected destination, payload ends in newline, nothing elsewhere; not admitted "
                       "=> nothing anywhere; blank Print/Println => exactly one newline byte. A second run makes all 64 flag bits symbolic.",
        "bounds": {"quick": "argument kinds incl. a typed nil pointer and a non-nil pointer of a method-less type; also in test-process mode (error values dumped after the record inside the one payload) with 2 call-site arguments; message <= 1 byte (all values); 1 argument of any kind (groups of <= 1 member of any kind) x 11 verbs; 2 arguments of any kind without nesting x 3 verbs; logger levels Trace/Warn/Off; flags run (all 64 flag bits symbolic): Info and Error, 3 formats, no arguments",
                   "thorough": "message <= 2 bytes (all values); otherwise as quick, plus one argument in the all-flags run"},
        "outside": "values whose own methods panic, cyclic values (excluded by the property); longer argument lists",
        "assumptions": ["time.Now is a fixed instant; runtime.Callers answered from the engine's call stack"],
        "runs": [
            {"harness": "VH_C02", "quick": {"msg": 1, "args": 1, "depth": 1, "gmembers": 1}, "thorough": {"msg": 2, "args": 1, "depth": 1, "gmembers": 1},
             "covers": ["C02:returned", "C02:admitted", "C02:blank"]},
            {"harness": "VH_C02", "quick": {"msg": 0, "args": 2, "depth": 0, "testmode": 1}, "thorough": {"msg": 1, "args": 2, "depth": 0, "testmode": 1}, "covers": ["C02:returned", "C02:admitted"]},
            {"harness": "VH_C02", "quick": {"msg": 0, "args": 2, "depth": 0}, "thorough": {"msg": 0, "args": 2, "depth": 0},
             "covers": ["C02:returned", "C02:admitted"]},
            {"harness": "VH_C02", "quick": {"msg": 0, "args": 0, "depth": 0, "symflags": 1}, "thorough": {"msg": 0, "args": 1, "depth": 0, "symflags": 1},
             "covers": ["C02:returned", "C02:admitted"]},
        ],
    },
    "C07": {
        "explanation": "Execution by the symbolic engine of collectArgs, walkParentAttrs, fromCtx, SetContextKeys, argsToAttrs, serializeAttrs "
                       "(sort comparator + dedupeSlice) with the real slices.SortFunc and the real context.Value chain. The shape dimensions "
                       "are enumerated by the solver: chain depth, number of own attributes per logger, every key of every attribute over the "
                       "alphabet {a,b,c} (so every collision pattern inside the bound occurs), string vs Stringer context keys, present or "
                       "absent in the context, nil context, the inherit flag, key/value pairs vs Attr values at the call site. The observed "
                       "(key,value) sequence of the logfmt record must equal the reference merge of the statement. G: the same inside a "
                       "group. L: 13..14 call-site attributes over two keys (8192+ layouts) through the real pdqsort.",
        "bounds": {"quick": "the unrelated Lattrs flag bit arbitrary in the deep-chain run; chain depth <= 2, <= 1 own attribute per logger, <= 1 context key, <= 2 call-site attributes; chain depth <= 4 with 0..1 own attributes per logger (every empty/non-empty pattern), no context key, <= 1 call-site attribute; 2 registered context keys (string/Stringer, each present or absent) on a single logger; groups of <= 3 members; 13 attributes over {a,b}",
                   "thorough": "chain depth <= 3, <= 1 own attribute per logger, <= 1 context key, <= 2 call-site attributes (3 took 25 minutes alone); chain depth <= 4 with 0..1 own attributes in logfmt and JSON (0..2 did not finish in 15 minutes); chains sharing one prepared attribute set; 13..15 attributes"},
        "outside": "attribute lists of 17..64 elements; observation through the colored format (C06 checks key order there on fixed lists)",
        "assumptions": ["values are distinct integers tagging their source; observation through logfmt and JSON loggers without caller field"],
        "runs": [
            {"harness": "VH_C07", "quick": {"chain": 2, "own": 1, "ctxkeys": 1, "site": 2, "json": 1}, "thorough": {"chain": 3, "own": 1, "ctxkeys": 1, "site": 2, "json": 1},
             "covers": ["C07:compared"]},
            # deep chains with empty loggers in the middle (the inherit walk must not stop at them)
            {"harness": "VH_C07", "quick": {"chain": 4, "own": 1, "ctxkeys": 0, "site": 1, "json": 0, "lattrs": 1}, "thorough": {"chain": 4, "own": 1, "ctxkeys": 0, "site": 1, "json": 1, "lattrs": 1},
             "covers": ["C07:compared"]},
            # several registered context keys, present or absent in any pattern
            {"harness": "VH_C07", "quick": {"chain": 1, "own": 0, "ctxkeys": 2, "site": 1, "json": 0}, "thorough": {"chain": 1, "own": 1, "ctxkeys": 3, "site": 1, "json": 0},
             "covers": ["C07:compared"]},
            # loggers of a chain given one and the same prepared attribute set, then their own attributes
            {"harness": "VH_C07", "quick": {"chain": 3, "own": 1, "ctxkeys": 0, "site": 1, "json": 0, "shared": 1}, "thorough": {"chain": 3, "own": 2, "ctxkeys": 0, "site": 1, "json": 1, "shared": 1},
             "covers": ["C07:compared"]},
            {"harness": "VH_C07G", "quick": {"members": 3}, "thorough": {"members": 4}, "covers": ["C07G:compared"]},
            {"harness": "VH_C07L", "quick": {"extra": 1}, "thorough": {"extra": 3}, "covers": ["C07L:compared"]},
        ],
    },
    "C09": {
        "explanation": "Symbolic execution of Entry.print, PrintCtx.set/setentry, printImpl and everything below it. Method: arbitrary pooled "
                       "pre-state instead of histories. The same probe (WriteThru with an explicit timestamp; format, UTC mode, severity "
                       "among a built-in, an error-class, a level registered without colour and an unregistered one, single- and "
                       "multi-line messages, attribute lists with a group and an error) is run on a fresh PrintCtx and on a PrintCtx whose "
                       "every field the library can have left behind is symbolic (buffer content, mode bits, layout, utc mode, level, msg, "
                       "first/rest lines, eol, stale attribute list, colours, timestamp, cached source), constrained only by the "
                       "representation invariant (off=0, lastRead=0, prefix empty, not in grouped mode, noQuoted, dedupeAttrs). The two "
                       "payloads must be byte-identical and the invariant must hold on the object put back, so one step covers histories of "
                       "any length on any logger. H: real histories, for state the havoc form cannot know about (fields added later, values "
                       "cached next to the formatting context): a probe record B (12 shapes over every rendering path: groups, nested groups, "
                       "errors first/last, errors with stack information, a time keyed 'time', blank and long messages, slices, durations; "
                       "severities with and without colours; explicit call site 1, 2 or none) is written on a pristine process, then again "
                       "after a history record A (same 12 shapes, on the same or another logger in any of 4 configurations, from the same or "
                       "another call site) written under global flags that may differ from B's in the privacy or the caller bit; B's two "
                       "payloads must be identical. Both in production and in test-process mode (error dumps). E: the same through the ordinary "
                       "entry points (Info/Warn/Error with call-site arguments, loggers with and without bound attributes, a third logger "
                       "recycling the pools in between; a layout without time verbs makes the payloads comparable). X: across executions - "
                       "every path of the harness runs in a fresh interpreter with pristine package state (a separate process for the library); "
                       "the probe's payload is handed to the engine under a key naming the probe's own inputs, and all executions (no history, "
                       "or any history record under flags differing in one bit) must observe the same payload for the same key, so state cached "
                       "in package variables cannot be warmed by the check itself; a difference is confirmed by running both executions natively "
                       "as two processes.",
        "bounds": {"quick": "H/X shapes incl. a record that outgrows the formatting buffer's initial capacity; havoc form: severities incl. a level registered with a foreground colour only; stale buffer 2 bytes, stale strings 1-2 bytes, 2 stale colour values each; 3 formats x 2 UTC modes x 4 severities x 3 messages x 5 attribute lists (incl. a group last, an error, a time.Time keyed 'time' last)",
                   "thorough": "same space (covered at quick)"},
        "outside": "user marshallers that read from the PrintCtx (move off); the pooled attribute slice of logContext (its cells are never read beyond len; C08 checks what is put into that pool); histories of more than one real record (covered by the havoc form for the fields it knows)",
        "assumptions": ["sync.Pool hands back the object put last (engine model; natively true on one goroutine without GC)"],
        "runs": [
            {"harness": "VH_C09", "quick": {"attrkinds": 7}, "thorough": {"attrkinds": 7}, "covers": ["C09:compared"]},
            {"harness": "VH_C09H", "quick": {"testmode": 0, "fa": 4, "fb": 3}, "thorough": {"testmode": 0, "fa": 5, "fb": 5}, "covers": ["C09H:compared"]},
            {"harness": "VH_C09H", "quick": {"testmode": 1, "fa": 4, "fb": 3}, "thorough": {"testmode": 1, "fa": 5, "fb": 5}, "covers": ["C09H:compared"]},
            {"harness": "VH_C09E", "covers": ["C09E:compared"]},
            {"harness": "VH_C09X", "quick": {"testmode": 0, "fa": 4, "fb": 3}, "thorough": {"testmode": 1, "fa": 5, "fb": 5}, "covers": ["C09X:observed"]},
        ],
    },
    "C10": {
        "explanation": "Execution by the symbolic engine of newentry, newChildLogger, New, the With*/Set* pairs (level, JSON/colour mode, UTC mode, "
                       "time format, attrs, skip, context keys, writer), ResetContextKeys, Parent/Root/Sublogger/Each and the getters. The "
                       "solver chooses at every step a target logger among those created so far and one of 23 operations (with symbolic "
                       "boolean / chosen level arguments; two of them hand one prepared attribute set with spare capacity to several loggers); "
                       "the harness keeps a model tree and asserts after every step, for every logger, "
                       "that all settings - attributes by content (key and value of each) - equal the model (so an operation on one logger changed no other), that With... returned a new "
                       "child of the receiver (WithSkip(n): one child per n) and Set... the receiver, that New(name) twice returns the same "
                       "child; finally Each visits each node of every subtree exactly once at its depth and Sublogger agrees with the "
                       "creation history. D: the real init() under production-process stubs gives the Warn default; package-level "
                       "SetLevel/New. S: a tree whose loggers were all given the same prepared attribute set, then attribute operations on any of "
                       "them. I: the inductive step - a four-logger tree whose every logger has an arbitrary level, format state and UTC mode "
                       "(solver variables, assigned to the fields) and one of two profiles for layout/attributes/skip/context keys/writer; "
                       "one Set... operation on one logger; all others unchanged, the target as the operation denotes.",
        "bounds": {"quick": "24 operations incl. AddWriter; the package's default writers observed after every step; D: package-level SetLevel, then optionally the default logger's own level changed or the default logger replaced; histories of 3 operations from one detached root; S: 3 attribute operations on a 4-logger tree; I: one operation from an arbitrary state of a fixed 4-logger tree",
                   "thorough": "histories of 3 operations (4 did not finish in 30 minutes with 23 operations); S: 4 operations"},
        "outside": "random-name collisions (random names are assumed fresh); SetLevel(Debug/Trace) (process-wide side effect, C01); longer histories",
        "assumptions": ["stringtool.RandomStringPure returns fresh distinct names"],
        "runs": [
            {"harness": "VH_C10", "quick": {"steps": 3}, "thorough": {"steps": 3}, "covers": ["C10:done"]},
            {"harness": "VH_C10D", "covers": ["C10D:done"]},
            {"harness": "VH_C10S", "quick": {"steps": 3}, "thorough": {"steps": 4}, "covers": ["C10S:done"]},
            {"harness": "VH_C10I", "covers": ["C10I:done"]},
        ],
    },
    "C14": {
        "explanation": "The engine answers runtime.Callers/Caller/CallersFrames/FuncForPC from its own call stack of interpreted frames (synthetic "
                       "wrappers elided like the runtime elides autogenerated frames), so the library's skip constants (log1=3, Context "
                       "verbs=2, logctxctx=3+inc, handlerWriter.Write=4, adapter 3+1+skip) are checked against the real call-graph depth, "
                       "including the interpreted frames of log.(*Logger).Print*/output and log/slog.(*Logger).log. Each of 52 entry points "
                       "(logger verbs, Context verbs, LogAttrs/Logit/Log, printf verbs, package-level functions, log/slog adapter, std log "
                       "bridge) is called from a closure that records its own function and line; the closure runs under a chain of four "
                       "wrappers; the logger skips n frames; the record (3 formats; root, child and default logger) must name the closure "
                       "(n=0) or the wrapper n levels up with that wrapper's call line.",
        "bounds": {"quick": "default logger installed as the root wrapper or as the *Entry itself; an earlier SetSkip before the one in force; 57 entry points (incl. printf verbs with a plain format) x 3 formats x 4 logger kinds (root, child, default logger's tree, one of two WithSkip siblings) x skip 0..4", "thorough": "same"},
        "outside": "identity between the Go runtime's frame elision/inlining and go/ssa's notion of synthetic wrapper: trusted, cross-validated because every counterexample is replayed natively",
        "assumptions": ["runtime.Callers answered from the engine's call stack"],
        "runs": [
            {"harness": "VH_C14", "quick": {"skip": 4}, "thorough": {"skip": 4}, "covers": ["C14:called"]},
        ],
    },
    "C15": {
        "explanation": "Symbolic execution of handler4LogSlog.Enabled/Handle/WithAttrs/WithGroup/withFields, convertLogSlogLevel, "
                       "convertAttrToField, convertLogSlogRecordAttrs, logsloglevel2Level, WriteThru, NewLogLogger, handlerWriter.Write, "
                       "writeInternal, together with the standard library's log/slog Record/Value/Attr accessors and log.Logger.output "
                       "(real SSA). A: Enabled == the logger's gating for the four standard levels, all int64 logger levels. B: a Record "
                       "with symbolic message and attributes of every log/slog kind (Bool, Int64, Uint64, Float64, String, Duration, Time, "
                       "nested Group, LogValuer) is handled: exactly one Write, byte-identical to WriteThru of the same time/message/"
                       "attributes at the namesake severity (logfmt and JSON). C: derived handlers keep level, destination, format and "
                       "add attributes. D: for every (logger level, bridge severity) pair and symbolic message (with/without trailing "
                       "newline) the bridge emits one record at its severity iff the logger admits it. E: level maps for all int64 values. "
                       "F: trees of derivations - at every step the solver picks the handler to derive from and what to add (one attribute, "
                       "a group, two attributes); afterwards every handler of the tree handles a record, which must be byte-identical to the "
                       "native record carrying exactly the attributes of that handler's own derivation path (siblings must not disturb each "
                       "other, whatever the slice capacities along the way).",
        "bounds": {"quick": "B: the record's time is a fixed instant or the zero instant; F: the record carries an attribute colliding with a bound key; B: message <= 1 byte, <= 1 attribute, group depth 1; D: printable messages <= 2 bytes, 7x6 level pairs; F: every derivation tree of 4 steps",
                   "thorough": "B: message <= 2 bytes, <= 2 attributes without nesting; D: messages <= 3 bytes; F: every derivation tree of 5 steps"},
        "outside": "handler option combinations of NewSlogHandler (they mutate process-wide flags); derivation trees of more than 5 steps",
        "assumptions": ["log/slog's own elision of empty groups from a Record is the standard library's behaviour"],
        "runs": [
            {"harness": "VH_C15A", "covers": ["C15A:asked"]},
            {"harness": "VH_C15B", "quick": {"msg": 1, "attrs": 1, "depth": 1}, "thorough": {"msg": 2, "attrs": 2, "depth": 0}, "covers": ["C15B:compared"]},
            {"harness": "VH_C15C", "covers": ["C15C:handled"]},
            {"harness": "VH_C15D", "quick": {"msg": 2}, "thorough": {"msg": 3}, "covers": ["C15D:printed"]},
            {"harness": "VH_C15E", "covers": ["C15E:standard", "C15E:terminating"]},
            {"harness": "VH_C15F", "quick": {"steps": 4, "kinds": 3}, "thorough": {"steps": 5, "kinds": 3}, "covers": ["C15F:compared"]},
        ],
    },
    "C04": {
        "explanation": "Symbolic execution of appendQuotedString/appendQuotedWith/appendEscapedRune, pcAppendStringKey, AddString/AddInt, "
                       "appendValue and all renderers, appendError, serializeAttrs, gkvp.SerializeValueTo, printImpl, Begin/End, printPC, "
                       "with strconv.AppendInt/IsPrint and utf8 decoding as real SSA. The oracle is a reference RFC 8259 recursive-descent "
                       "validator+decoder written in the harness and executed symbolically on the library's own output. A: any byte string "
                       "(all 256 values per byte) as message, as attribute value and as attribute key: one line, one valid JSON object, "
                       "msg/value decode byte for byte (valid UTF-8), the attribute under its own key. B: a record with attributes of 19 "
                       "kinds (string, bool, int64/uint64 extremes, small widths, float, complex, Duration, Time, error, Stringer, []byte, "
                       "nil, []string/[]int/[]bool, struct via the fallback, groups nested to the bound incl. empty), caller field on/off: "
                       "members time/logger/level/msg/caller, one member per key, values preserved.",
        "bounds": {"quick": "complex values incl. infinite and NaN imaginary parts, parsed back; the message at five severities (Info, Error, OK, Fail, unregistered); string/message/key positions also with four longer texts containing HTML-like markup, entities, leading blanks and CR; float64 values incl. one that is exactly a float32; A: strings of <= 2 bytes; B: 1 attribute with group depth 1, and 2 attributes without groups",
                   "thorough": "A: strings of <= 3 bytes; B as quick (group depth 2 did not finish in 30 minutes)"},
        "outside": "maps via the fallback formatter (fmt needs reflect.Value.MapRange: not encoded); user marshallers / value stringers (excluded by the property); longer strings",
        "assumptions": ["timestamp text comes from the real time formatter on a fixed instant"],
        "runs": [
            {"harness": "VH_C04A", "quick": {"len": 2}, "thorough": {"len": 3}, "covers": ["C04A:rendered"]},
            {"harness": "VH_C04B", "quick": {"attrs": 1, "depth": 1}, "thorough": {"attrs": 1, "depth": 1}, "covers": ["C04B:rendered"]},
            {"harness": "VH_C04B", "quick": {"attrs": 2, "depth": 0}, "thorough": {"attrs": 2, "depth": 0}, "covers": ["C04B:rendered"]},
        ],
    },
    "C05": {
        "explanation": "Symbolic execution of the logfmt branch of the print path (DotPrefix, the inGroupedMode/prefix logic of serializeAttrs, "
                       "AddPrefixedString/Int, appendQuotedWith, all renderers) in production mode. The oracle is a logfmt tokenizer in the "
                       "harness that decodes quoted values with the standard library's strconv.Unquote (both executed symbolically on the "
                       "library's output). Message: any bytes; keys: symbolic legal logfmt keys, pairwise distinct; values of 11 kinds "
                       "including []byte, nil, error, Stringer, Duration and groups nested to the bound at every position. Asserted: one "
                       "line; time, logger, level, msg first; msg parses back; exactly one pair per attribute under its own (dotted) key "
                       "with its exact value; string-like values quoted; no forged pair.",
        "bounds": {"quick": "keys may contain a backslash; attribute run also with debug mode switched on at run time (still a production process); messages also among four longer texts containing HTML-like markup, entities, leading blanks and CR; rune kernel: message or string value 'a'+r+'b' for EVERY Unicode scalar value r (strconv.IsPrint as an exact interval function); message <= 2 bytes at Info and <= 1 byte (empty, blank, special, ordinary) at Error, Debug, OK, Success, Fail and a registered custom severity (no attributes); 1 attribute of any kind (incl. times needing nine fractional digits and a zone offset, durations of 1ns / 25h1m1.000000001s / negative, parsed back to the exact value) incl. a group with <= 2 members of any kind at every position; keys of 1 byte", "thorough": "as quick, plus 2 top-level attributes of any kind (an attribute after a group); group depth 2 with 2-byte keys did not finish in 30 minutes"},
        "outside": "the multi-line error dump under go test / debugger (production mode is set by the harness); user marshallers",
        "assumptions": ["runs of spaces between pairs are not counted as pairs"],
        "runs": [
            {"harness": "VH_C05", "quick": {"attrs": 1, "depth": 1, "msg": 2, "key": 1}, "thorough": {"attrs": 1, "depth": 1, "msg": 2, "key": 1}, "covers": ["C05:rendered"]},
            {"harness": "VH_C05", "quick": {"attrs": 2, "depth": 0, "msg": 0, "key": 0}, "thorough": {"attrs": 2, "depth": 0, "msg": 0, "key": 0}, "thorough_only": True, "covers": ["C05:rendered"]},
            {"harness": "VH_C05", "quick": {"attrs": 1, "depth": 0, "msg": 0, "key": 0, "rtdebug": 1}, "thorough": {"attrs": 1, "depth": 1, "msg": 0, "key": 0, "rtdebug": 1}, "covers": ["C05:rendered"]},
            {"harness": "VH_C05R", "covers": ["C05R:rendered"]},
        ],
    },
    "C06": {
        "explanation": "Symbolic execution of the colour branch of printImpl, printFirstLineOfMsg/printRestLinesOfMsg, colorizeToolS, the "
                       "hedzr/is color writers, serializeAttrs colour handling, appendError, Level.ShortTag, SetLevelOutputWidth, "
                       "SetMessageMinimalWidth - and of the real HTML-based translator (golang.org/x/net/html tokenizer and parser run "
                       "symbolically on the symbolic message; no model). Oracle 1 (hygiene): an SGR scanner asserts that every ESC belongs "
                       "to an ESC[..m sequence and that no colour is on at any line break nor at the end, for all messages without ESC "
                       "bytes; attribute values contribute no raw control bytes. Oracle 2 (layout): the text without escapes must equal "
                       "timestamp, name, [tag of the configured width], first line padded to the minimal width, attributes in key order, "
                       "rest lines indented by four spaces - for severities built-in, registered with and without tags, and unregistered.",
        "bounds": {"quick": "severities incl. a level registered with short tags for some widths only; messages <= 3 bytes over printable ASCII without < > & plus LF (layout) / <= 2 bytes of anything but ESC (hygiene); tag widths 1..5 and minimal widths 16/17/36 with messages <= 2 bytes; attribute lists: ints, symbolic string, error+group; and for hygiene a []byte, an error and a Stringer value each containing an arbitrary byte",
                   "thorough": "messages <= 4 bytes (layout); hygiene as quick (3 bytes did not finish in 30 minutes)"},
        "outside": "messages containing < > & (excluded by the property); the multi-line error dump under go test; caller field (C14)",
        "assumptions": ["timestamp text from the real formatter on a fixed instant"],
        "runs": [
            {"harness": "VH_C06", "quick": {"msg": 3, "attrkinds": 4}, "thorough": {"msg": 4, "attrkinds": 4}, "covers": ["C06:rendered"]},
            {"harness": "VH_C06", "quick": {"msg": 2, "attrkinds": 2, "widths": 1}, "thorough": {"msg": 3, "attrkinds": 2, "widths": 1}, "covers": ["C06:rendered"]},
            {"harness": "VH_C06", "quick": {"msg": 2, "attrkinds": 2, "tail": 1}, "thorough": {"msg": 2, "attrkinds": 4, "tail": 1, "widths": 1}, "covers": ["C06:rendered"]},
            {"harness": "VH_C06", "quick": {"msg": 2, "attrkinds": 7, "hygiene": 1}, "thorough": {"msg": 2, "attrkinds": 7, "hygiene": 1}, "covers": ["C06:rendered"]},
        ],
    },
    "C08": {
        "explanation": "Goroutine interleavings are NOT explored (the engine executes one goroutine). Decided on the real code instead: the "
                       "sequential ownership discipline that makes concurrent calls independent. For every log call shape (root and child "
                       "logger with logger-level attributes including a shared Group, per-call attributes including the same Group value, "
                       "3 formats, single/multi-line message, error values, Info, WriteThru and the log/slog adapter's Handle (on a derived handler whose bound attribute slice has spare capacity, records with 0..2 own attributes) as entry points; the Group's members in every "
                       "order over two keys, i.e. sorted, unsorted and duplicated) the engine's write-set monitor checks that every store, "
                       "map update, copy and in-place append executed between entry and return targets memory allocated during the call "
                       "or an object checked out of a sync.Pool during it (sync/atomic stubs and the destinations' own writes exempt), "
                       "and that every object handed to sync.Pool.Put is itself owned by the call (memory reachable from the call's inputs "
                       "must never be published to other goroutines through a pool); "
                       "and the harness compares snapshots of everything reachable from the call's inputs (loggers' attribute slices, "
                       "the shared group's member slice, the caller's attribute slice) before and after the call and again after a later call "
                       "of another logger that recycles the pools. Reduction (argued, not checked): "
                       "if every call writes only memory it owns, two concurrent calls share only memory neither writes, so there is no "
                       "data race between them and each payload is built in private memory.",
        "bounds": {"quick": "a re-entrant destination (its Write logs through another logger before consuming the payload); shared groups also with 9 pairs out of order (18 entries); a child binding a key its parent binds (inherit flag); groups of 1..3 members over keys {a,b}; 4 argument shapes; 2 logger shapes; 3 formats; 2 messages; 2 entry points",
                   "thorough": "same (covered at quick)"},
        "outside": "any race that needs two goroutines to manifest and is not a violation of the ownership discipline; reconfiguration during logging; "
                   "global tables written by RegisterLevel/SetFlags; races inside the standard library or the destinations; delivery multiset (C02/C13 decide one Write per call)",
        "assumptions": ["sync.Pool hands an object to one goroutine at a time; sync/atomic is atomic; destinations are safe for concurrent Write",
                        "monitor violations are engine observations (label suffix [engine]): their replay is the deterministic re-execution by the engine; the snapshot assertions replay natively"],
        "runs": [
            {"harness": "VH_C08", "covers": ["C08:called", "C08:writethru", "C08:adapter", "C08:reentrant"]},
        ],
    },
}
