"""Registry of checks: per property, the harnesses, their bounds per tier,
the reachability witnesses that must be hit, and the evidence texts."""

TECH = ("bounded symbolic execution of the real go/ssa of /repo (re-loaded on every run) with every branch and "
        "assertion decided by z3 over bit-vectors; counterexamples replayed natively")

CHECKS = {
    "C01": {
        "explanation": "Symbolic execution (go/ssa -> SMT-LIB2 bit-vectors, z3) of Level.Enabled / Entry.Enabled / "
                       "EnabledContext, SetLevel, RegisterLevel and of all 61 public entry points down to the recording "
                       "writers. Harness A: logger level L and severity r are unconstrained 64-bit values, registrations "
                       "(value, treated-as, presence of the option) and the debug-mode history are symbolic; the assertion "
                       "Enabled(r) == rule(L, r, debug, registry) is discharged on every path. Harness B: for each entry "
                       "point (selector enumerated by the solver) and symbolic L: a Write happens iff the rule admits the "
                       "entry point's severity.",
        "bounds": {"quick": "A: <=1 RegisterLevel call, all int64 L/r/value, treated-as in 0..11; B: 61 entry points, all int64 L, "
                            "LogAttrs/Logit severities -1..13, message 'm', colored+JSON",
                   "thorough": "A: <=2 RegisterLevel calls; B: as quick plus one registered custom level"},
        "outside": "loggers built with a log/slog.Handler option; SetDefault loggers that are neither *Entry nor *logimp; -tags verbose builds",
        "assumptions": ["environment stubs: sync.Pool (LIFO), sync/atomic (sequential), time.Now (fixed instant), runtime.Callers (engine call stack)",
                        "process is a production process (not go test, no debugger, DEBUG unset)"],
        "runs": [
            {"harness": "VH_C01A", "quick": {"regs": 0}, "thorough": {"regs": 1},
             "covers": ["C01A:reached", "C01A:admitted", "C01A:refused"]},
            {"harness": "VH_C01A", "quick": {"regs": 1}, "thorough": {"regs": 2}, "thorough_only": True,
             "covers": ["C01A:reached"]},
            {"harness": "VH_C01B", "quick": {"regs": 0}, "thorough": {"regs": 1},
             "covers": ["C01B:reached", "C01B:emitted"]},
        ],
    },
}
