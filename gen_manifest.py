#!/usr/bin/env python3
"""Regenerates MANIFEST.json from checks.py (claimed) and NOT_APPLICABLE below."""
import json
from checks import CHECKS, TECH

NOT_APPLICABLE = {}
ALL = ["C%02d" % i for i in range(1, 21)]
PENDING = "check not built yet in this session (see DESIGN.md section 7); no claim is made"

m = {
    "version": 1,
    "setup_cmd": "cd /verif/engine && GOFLAGS=-mod=mod GOWORK=off GOPROXY=off GOSUMDB=off GOTOOLCHAIN=local go build -o /verif/bin/gosym ./cmd/gosym",
    "hooks": {
        "guard": "verif",
        "enable": "none needed: harnesses are injected with a go/packages overlay (engine) and go build -overlay (native replay); /repo carries no hook",
        "baseline_off_cmd": "for m in $(cat /w/out/gomods.txt); do MF=$(cd /repo/$m && . /w/out/goenv.sh && gomodflag); (cd /repo/$m && go test $MF -json -vet=off -count=1 -timeout 25m ./...); done",
        "source_commits": [],
        "add_only": True,
    },
    "engines": [{
        "name": "gosym", "path": "engine",
        "serves_properties": sorted(CHECKS),
        "kind_free_text": "symbolic executor for go/ssa (fork of x/tools v0.29.0 go/ssa/interp with symbolic bit-vector values), SMT-LIB2 over a pipe to z3; native replay of counterexamples",
    }],
    "checks": [],
    "not_applicable": [],
    "notes": "Each check re-loads /repo's working tree with go/packages, rebuilds the SSA and regenerates every SMT query from it. Exit 0 = every query inside the bounds discharged (KNOWN-FINDING lines for findings listed in known_findings.txt); exit 1 = VIOLATION lines (replay-confirmed); exit 2 = machinery error, no verdict. tools/selftest.py validates the encoder (engine vs native on the recorded sample paths); tools/crosscheck.py re-submits deciding queries to cvc5 and z3 5.1 (automatic in the thorough tier). /repo carries no hooks: harnesses are injected by overlay; the only commits to /repo are fix: repairs listed in known_findings.txt.",
}
for pid in ALL:
    if pid in CHECKS:
        c = CHECKS[pid]
        m["checks"].append({
            "property_id": pid,
            "quick_cmd": "python3 check.py %s quick" % pid,
            "thorough_cmd": "python3 check.py %s thorough" % pid,
            "evidence_file": "evidence/%s.json" % pid,
            "replay_cmd_template": "cd /tmp && HOME=/nonexistent-home /verif/bin/vreplay-%s-%s {path}   (built by the check from /repo's working tree; prints VFAIL <label> / VPANIC)" % (pid, "times" if pid == "C20" else "slog"),
            "engine": "gosym",
            "level_claimed": {
                "category": "other",
                "text": "bounded symbolic execution of the real code: within the stated bounds the solver shows the assertion holds for every value of the symbolic inputs, or returns a counterexample that is replayed natively. " + c.get("level_text", ""),
                "design_ref": "DESIGN.md section 4, " + pid,
            },
            "level_note": "bounds: " + json.dumps(c.get("bounds", {})) + "; outside the claim: " + c.get("outside", "") + "; trusted: go/ssa construction, the engine's interpreter, z3, the environment stubs listed in the evidence",
            "technique": TECH,
        })
    else:
        m["not_applicable"].append({"property_id": pid, "reason": NOT_APPLICABLE.get(pid, PENDING)})
json.dump(m, open("MANIFEST.json", "w"), indent=1)
print("claimed:", sorted(CHECKS))
