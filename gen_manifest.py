#!/usr/bin/env python3
"""Regenerates MANIFEST.json from checks.py (claimed) and NOT_APPLICABLE below."""
import json
from checks import CHECKS, TECH

NOT_APPLICABLE = {}
ALL = ["C%02d" % i for i in range(1, 21)]
PENDING = "check not built yet in this session (see DESIGN.md section 7); no claim is made"

m = {
    "version": 1,
    "setup_cmd": "cd /verif/engine && GOFLAGS=-mod=mod GOWORK=off GOPROXY=off GOSUMDB=off GOTOOLCHAIN=local go build -o /verif/bin/gosym ./cmd/gosym",
    "hooks": {
        "guard": "verif",
        "enable": "none needed: harnesses are injected with a go/packages overlay (engine) and go build -overlay (native replay); /repo carries no hook",
        "baseline_off_cmd": "cd /repo && go test -vet=off -count=1 ./... && cd tests && go test -vet=off -count=1 ./...",
        "source_commits": [],
        "add_only": True,
    },
    "engines": [{
        "name": "gosym", "path": "engine",
        "serves_properties": sorted(CHECKS),
        "kind_free_text": "symbolic executor for go/ssa (fork of x/tools v0.29.0 go/ssa/interp with symbolic bit-vector values), SMT-LIB2 over a pipe to z3; native replay of counterexamples",
    }],
    "checks": [],
    "not_applicable": [],
    "notes": "Each check regenerates its encoding from /repo's working tree. Exit 2 = machinery error (no verdict).",
}
for pid in ALL:
    if pid in CHECKS:
        c = CHECKS[pid]
        m["checks"].append({
            "property_id": pid,
            "quick_cmd": "python3 check.py %s quick" % pid,
            "thorough_cmd": "python3 check.py %s thorough" % pid,
            "evidence_file": "evidence/%s.json" % pid,
            "replay_cmd_template": "bin/vreplay-%s-slog {path}" % pid,
            "engine": "gosym",
            "level_claimed": {
                "category": "other",
                "text": "bounded symbolic execution of the real code: within the stated bounds the solver shows the assertion holds for every value of the symbolic inputs, or returns a counterexample that is replayed natively. " + c.get("level_text", ""),
                "design_ref": "DESIGN.md section 4, " + pid,
            },
            "level_note": "bounds: " + json.dumps(c.get("bounds", {})) + "; outside the claim: " + c.get("outside", "") + "; trusted: go/ssa construction, the engine's interpreter, z3, the environment stubs listed in the evidence",
            "technique": TECH,
        })
    else:
        m["not_applicable"].append({"property_id": pid, "reason": NOT_APPLICABLE.get(pid, PENDING)})
json.dump(m, open("MANIFEST.json", "w"), indent=1)
print("claimed:", sorted(CHECKS))
