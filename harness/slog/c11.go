package slog

// C11: the output format is a per-logger three-state machine.

const (
	vFmtJSON = iota
	vFmtColor
	vFmtLogfmt
)

func vStateOf(l *Entry) int {
	switch {
	case l.useJSON && l.useColor:
		return -1 // not a state
	case l.useJSON:
		return vFmtJSON
	case l.useColor:
		return vFmtColor
	}
	return vFmtLogfmt
}

func vSetState(l *Entry, st int) {
	l.useJSON = st == vFmtJSON
	l.useColor = st == vFmtColor
}

// vBoolArgs builds the variadic argument of a mode call: 0, 1 or 2 booleans;
// eff is the effective value (no argument = true, otherwise the last one).
func vBoolArgs() (bs []bool, eff bool) {
	eff = true
	n := vChoose(3)
	for i := 0; i < n; i++ {
		b := vBool()
		bs = append(bs, b)
		eff = b
	}
	return
}

// vSpecStep is the specification machine.
func vSpecStep(st int, jsonOp bool, eff bool) int {
	if jsonOp {
		if eff {
			return vFmtJSON
		}
		if st == vFmtJSON {
			return vFmtLogfmt
		}
		return st
	}
	if eff {
		return vFmtColor
	}
	return vFmtLogfmt
}

// vShapeOf classifies a payload: JSON object line, coloured text, logfmt line.
func vShapeOf(p string) int {
	hasESC := false
	for i := 0; i < len(p); i++ {
		if p[i] == 0x1b {
			hasESC = true
		}
	}
	n := len(p)
	if n >= 3 && p[0] == '{' && p[n-2] == '}' && p[n-1] == '\n' && !hasESC {
		return vFmtJSON
	}
	if hasESC {
		return vFmtColor
	}
	if n > 5 && p[:5] == "time=" {
		return vFmtLogfmt
	}
	return -1
}

func VH_C11() {
	vProduction()
	rec := &vRec{}
	root := New("r").(*logimp).Entry
	root.SetLevel(InfoLevel)
	vAssert(vStateOf(root) == vFmtColor, "C11: a new detached logger is colored")
	a := root.New("a")
	b := a.New("b")
	vAssert(vStateOf(a) == vFmtColor && vStateOf(b) == vFmtColor, "C11: children inherit the format at creation")
	ls := []*Entry{root, a, b}
	st := []int{vFmtColor, vFmtColor, vFmtColor}
	if vParam("arbitrary", 1) == 1 {
		// arbitrary pre-state satisfying the invariant (one inductive step)
		for i, l := range ls {
			st[i] = vChoose(3)
			vSetState(l, st[i])
		}
	}
	steps := vParam("steps", 1)
	for k := 0; k < steps; k++ {
		x := vChoose(len(ls))
		X := ls[x]
		op := vChoose(8)
		bs, eff := vBoolArgs()
		jsonOp := op == 0 || op == 2 || op == 4 || op == 6
		var ret *Entry
		switch op {
		case 0:
			ret = X.SetJSONMode(bs...)
		case 1:
			ret = X.SetColorMode(bs...)
		case 2:
			ret = X.WithJSONMode(bs...)
		case 3:
			ret = X.WithColorMode(bs...)
		case 4:
			ret = X.New("n", WithJSONMode(bs...))
		case 5:
			ret = X.New("n", WithColorMode(bs...))
		case 6:
			ret = X.New(WithJSONMode(bs...)) // an anonymous child: the option is the first argument
		case 7:
			ret = X.New(WithColorMode(bs...))
		}
		if op <= 1 {
			vAssert(ret == X, "C11: Set...Mode returns the receiver")
			st[x] = vSpecStep(st[x], jsonOp, eff)
		} else {
			isNew := true
			for _, l := range ls {
				if l == ret {
					isNew = false
				}
			}
			if op >= 4 && !isNew {
				// New("n") found the existing child of that name: options are not applied again
				continue
			}
			vAssert(isNew, "C11: With...Mode returns a new logger")
			vAssert(ret.Parent() == X, "C11: the new logger is a child of the receiver")
			ls = append(ls, ret)
			st = append(st, vSpecStep(st[x], jsonOp, eff))
		}
		// every logger: state as specified, getters agree, invariant holds
		for i, l := range ls {
			vAssert(vStateOf(l) == st[i], "C11: state equals the specification machine (and no other logger changed)")
			vAssert(l.JSONMode() == (st[i] == vFmtJSON), "C11: JSONMode getter agrees")
			vAssert(l.ColorMode() == (st[i] == vFmtColor), "C11: ColorMode getter agrees")
		}
	}
	vCover("C11:steps-done")
	// probe record on each logger: the bytes have the shape of the state
	for i, l := range ls {
		n0 := len(rec.evs)
		l.SetWriter(&recW{i, rec}).SetLevel(InfoLevel)
		l.Info("m", "k", 1)
		vAssert(len(rec.evs) == n0+1, "C11: probe record written once")
		vAssert(vShapeOf(rec.evs[n0].P) == st[i], "C11: record shape agrees with the state")
	}
	vCover("C11:probed")
}
