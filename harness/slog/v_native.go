package slog

// Native implementations of the harness intrinsics: values come from the
// replay file written by the symbolic executor (VERIF_REPLAY), so that a
// counterexample is re-run against the real build.

import (
	enchex "encoding/hex"
	"encoding/json"
	"fmt"
	"os"
)

type vReplayItem struct {
	K string `json:"k"`
	I uint64 `json:"i"`
	H string `json:"h"`
}

type vReplayFile struct {
	Harness string            `json:"harness"`
	Label   string            `json:"label"`
	Params  map[string]int    `json:"params"`
	Items   []vReplayItem     `json:"items"`
}

// vStdout is the process's real standard output (harnesses may redirect
// os.Stdout to a recording sink).
var vStdout = os.Stdout

var (
	vReplay  vReplayFile
	vPos     int
	VFailed  []string
	vCovered []string
)

func VLoadReplay(path string) error {
	b, err := os.ReadFile(path)
	if err != nil {
		return err
	}
	vPos = 0
	VFailed = nil
	return json.Unmarshal(b, &vReplay)
}

func vNext(kind string) vReplayItem {
	if vPos >= len(vReplay.Items) {
		// past the recorded prefix: the engine never got here on this path
		return vReplayItem{K: kind}
	}
	it := vReplay.Items[vPos]
	vPos++
	if it.K != kind {
		fmt.Fprintf(vStdout, "VDIVERGE want %s got %s at %d\n", kind, it.K, vPos-1)
	}
	return it
}

func vInt() int64       { return int64(vNext("int").I) }
func vInt32() int32     { return int32(vNext("int").I) }
func vUint64() uint64   { return vNext("int").I }
func vByte() byte       { return byte(vNext("int").I) }
func vBool() bool       { return vNext("int").I != 0 }
func vChoose(n int) int { return int(vNext("int").I) }
func vString(max int) string {
	b, _ := enchex.DecodeString(vNext("str").H)
	return string(b)
}
func vStringN(n int) string { return vString(n) }
func vAssume(c bool) {
	if !c {
		fmt.Fprintln(vStdout, "VASSUME-FALSE")
		panic(vStop{})
	}
}

type vStop struct{}

func vAssert(c bool, label string) {
	if !c {
		VFailed = append(VFailed, label)
		fmt.Fprintf(vStdout, "VFAIL %s\n", label)
		if vKnownKey != "" {
			return
		}
		panic(vStop{})
	}
}

var vKnownKey string
func vCover(label string)     {}
func vConcrete(x int64) int64 { return x }
func vIsEngine() bool         { return false }
func vOut(s string)           { fmt.Fprintf(vStdout, "VOUT %q\n", s) }
func vSame(key, val string)    { fmt.Fprintf(vStdout, "VSAME %q %q\n", key, val) }
func vKnown(key string)       { vKnownKey = key }
func vParam(name string, def int) int {
	if v, ok := vReplay.Params[name]; ok {
		return v
	}
	return def
}

// VRun runs harness name natively; reports VPANIC for an unrecovered panic.
func VRun(name string) {
	h, ok := vHarnesses[name]
	if !ok {
		fmt.Fprintln(vStdout, "VNOHARNESS", name)
		os.Exit(3)
	}
	reps := 1
	if s := os.Getenv("VERIF_REPEAT"); s != "" {
		fmt.Sscanf(s, "%d", &reps)
	}
	for k := 0; k < reps; k++ {
		vPos = 0
		vKnownKey = ""
		vRunOnce(h)
	}
	fmt.Fprintln(vStdout, "VDONE")
}

func vRunOnce(h func()) {
	defer func() {
		if r := recover(); r != nil {
			if _, stop := r.(vStop); stop {
				return
			}
			fmt.Fprintf(vStdout, "VPANIC %v\n", r)
		}
	}()
	h()
}

func VReplayHarness() string { return vReplay.Harness }

func vAnd(a, b bool) bool { return a && b }
func vOr(a, b bool) bool  { return a || b }
func vNot(a bool) bool    { return !a }
func vIte(c bool, a, b int64) int64 {
	if c {
		return a
	}
	return b
}

// vCatchExit cannot intercept os.Exit natively: if f exits, the process ends
// with the exit status, which the replay driver observes.
func vCatchExit(f func()) (int, bool) { f(); return 0, false }

// vPermuteMaps: natively Go randomises map iteration itself; the replay
// driver repeats the harness (VERIF_REPEAT) to meet the failing order.
func vPermuteMaps(on bool) {}

// vStubTimeFormat: natively the real formatter runs.
func vStubTimeFormat(on bool) {}

// ---- recording sink files ----

var vFiles = map[int]*os.File{}

func vFile(id int) *os.File {
	f, err := os.CreateTemp("", "vfile")
	if err != nil {
		panic(err)
	}
	os.Remove(f.Name()) // unlinked: disappears with the process
	vFiles[id] = f
	return f
}

func vFileData(id int) string {
	f := vFiles[id]
	if f == nil {
		return ""
	}
	st, _ := f.Stat()
	b := make([]byte, st.Size())
	f.ReadAt(b, 0)
	return string(b)
}

// vFileWrites natively counts records by their final newline (one Write per
// record is C02's subject).
func vFileWrites(id int) int {
	n := 0
	for _, c := range vFileData(id) {
		if c == '\n' {
			n++
		}
	}
	return n
}

// vMonitorWrites: the write-set monitor is an engine facility; natively the
// harness's own snapshot comparison of the inputs is what is observable.
func vMonitorWrites(on bool) {}
