package slog

import "unicode/utf8"

// Reference JSON validator/decoder (RFC 8259), small and direct. It is the
// oracle of C04 and is executed symbolically on the library's output.

type vJ struct {
	kind byte // 's' string, 'n' number, 't' true, 'f' false, 'z' null, 'a' array, 'o' object
	str  string
	arr  []vJ
	keys []string
	vals []vJ
}

type vJP struct {
	s     string
	i     int
	depth int
}

func (p *vJP) ws() {
	for p.i < len(p.s) && (p.s[p.i] == ' ' || p.s[p.i] == '\t' || p.s[p.i] == '\n' || p.s[p.i] == '\r') {
		p.i++
	}
}

func vHexVal(c byte) (int, bool) {
	switch {
	case c >= '0' && c <= '9':
		return int(c - '0'), true
	case c >= 'a' && c <= 'f':
		return int(c-'a') + 10, true
	case c >= 'A' && c <= 'F':
		return int(c-'A') + 10, true
	}
	return 0, false
}

func (p *vJP) hex4() (rune, bool) {
	if p.i+4 > len(p.s) {
		return 0, false
	}
	var r rune
	for k := 0; k < 4; k++ {
		v, ok := vHexVal(p.s[p.i+k])
		if !ok {
			return 0, false
		}
		r = r<<4 | rune(v)
	}
	p.i += 4
	return r, true
}

// str parses a JSON string literal at p.i (which must be '"').
func (p *vJP) str() (string, bool) {
	if p.i >= len(p.s) || p.s[p.i] != '"' {
		return "", false
	}
	p.i++
	var out []byte
	for {
		if p.i >= len(p.s) {
			return "", false
		}
		c := p.s[p.i]
		switch {
		case c == '"':
			p.i++
			return string(out), true
		case c < 0x20:
			return "", false // raw control character
		case c == '\\':
			p.i++
			if p.i >= len(p.s) {
				return "", false
			}
			e := p.s[p.i]
			p.i++
			switch e {
			case '"', '\\', '/':
				out = append(out, e)
			case 'b':
				out = append(out, '\b')
			case 'f':
				out = append(out, '\f')
			case 'n':
				out = append(out, '\n')
			case 'r':
				out = append(out, '\r')
			case 't':
				out = append(out, '\t')
			case 'u':
				r, ok := p.hex4()
				if !ok {
					return "", false
				}
				if r >= 0xD800 && r < 0xDC00 && p.i+6 <= len(p.s) && p.s[p.i] == '\\' && p.s[p.i+1] == 'u' {
					save := p.i
					p.i += 2
					r2, ok2 := p.hex4()
					if ok2 && r2 >= 0xDC00 && r2 < 0xE000 {
						r = 0x10000 + (r-0xD800)<<10 + (r2 - 0xDC00)
					} else {
						p.i = save
						r = utf8.RuneError
					}
				} else if r >= 0xD800 && r < 0xE000 {
					r = utf8.RuneError
				}
				out = utf8.AppendRune(out, r)
			default:
				return "", false // \x \a \v \U ... are not JSON
			}
		default:
			out = append(out, c)
			p.i++
		}
	}
}

func (p *vJP) num() (string, bool) {
	st := p.i
	if p.i < len(p.s) && p.s[p.i] == '-' {
		p.i++
	}
	d0 := p.i
	for p.i < len(p.s) && p.s[p.i] >= '0' && p.s[p.i] <= '9' {
		p.i++
	}
	if p.i == d0 || (p.s[d0] == '0' && p.i-d0 > 1) {
		return "", false
	}
	if p.i < len(p.s) && p.s[p.i] == '.' {
		p.i++
		f0 := p.i
		for p.i < len(p.s) && p.s[p.i] >= '0' && p.s[p.i] <= '9' {
			p.i++
		}
		if p.i == f0 {
			return "", false
		}
	}
	if p.i < len(p.s) && (p.s[p.i] == 'e' || p.s[p.i] == 'E') {
		p.i++
		if p.i < len(p.s) && (p.s[p.i] == '+' || p.s[p.i] == '-') {
			p.i++
		}
		e0 := p.i
		for p.i < len(p.s) && p.s[p.i] >= '0' && p.s[p.i] <= '9' {
			p.i++
		}
		if p.i == e0 {
			return "", false
		}
	}
	return p.s[st:p.i], true
}

func (p *vJP) lit(w string) bool {
	if p.i+len(w) <= len(p.s) && p.s[p.i:p.i+len(w)] == w {
		p.i += len(w)
		return true
	}
	return false
}

func (p *vJP) value() (vJ, bool) {
	p.ws()
	if p.i >= len(p.s) || p.depth > 6 {
		return vJ{}, false
	}
	switch c := p.s[p.i]; {
	case c == '"':
		s, ok := p.str()
		return vJ{kind: 's', str: s}, ok
	case c == '{':
		p.i++
		p.depth++
		o := vJ{kind: 'o'}
		p.ws()
		if p.i < len(p.s) && p.s[p.i] == '}' {
			p.i++
			p.depth--
			return o, true
		}
		for {
			p.ws()
			k, ok := p.str()
			if !ok {
				return vJ{}, false
			}
			p.ws()
			if p.i >= len(p.s) || p.s[p.i] != ':' {
				return vJ{}, false
			}
			p.i++
			v, ok := p.value()
			if !ok {
				return vJ{}, false
			}
			o.keys = append(o.keys, k)
			o.vals = append(o.vals, v)
			p.ws()
			if p.i < len(p.s) && p.s[p.i] == ',' {
				p.i++
				continue
			}
			if p.i < len(p.s) && p.s[p.i] == '}' {
				p.i++
				p.depth--
				return o, true
			}
			return vJ{}, false
		}
	case c == '[':
		p.i++
		p.depth++
		a := vJ{kind: 'a'}
		p.ws()
		if p.i < len(p.s) && p.s[p.i] == ']' {
			p.i++
			p.depth--
			return a, true
		}
		for {
			v, ok := p.value()
			if !ok {
				return vJ{}, false
			}
			a.arr = append(a.arr, v)
			p.ws()
			if p.i < len(p.s) && p.s[p.i] == ',' {
				p.i++
				continue
			}
			if p.i < len(p.s) && p.s[p.i] == ']' {
				p.i++
				p.depth--
				return a, true
			}
			return vJ{}, false
		}
	case c == 't':
		return vJ{kind: 't'}, p.lit("true")
	case c == 'f':
		return vJ{kind: 'f'}, p.lit("false")
	case c == 'n':
		return vJ{kind: 'z'}, p.lit("null")
	case c == '-' || (c >= '0' && c <= '9'):
		n, ok := p.num()
		return vJ{kind: 'n', str: n}, ok
	}
	return vJ{}, false
}

// vJSONParse parses one JSON document occupying the whole of s.
func vJSONParse(s string) (vJ, bool) {
	p := &vJP{s: s}
	v, ok := p.value()
	if !ok {
		return vJ{}, false
	}
	p.ws()
	return v, p.i == len(s)
}

func (o vJ) get(key string) (vJ, int) {
	n := 0
	var r vJ
	for i, k := range o.keys {
		if k == key {
			n++
			r = o.vals[i]
		}
	}
	return r, n
}
