package slog

import (
	"strings"
	"time"
)

// C16: the timestamp is the record's own instant, in the configured zone and
// layout. Under the engine Time.AppendFormat is a recording stub whose token
// is an injective image of (instant representation, zone, layout); natively
// (replay) the real formatter runs. The oracle formats the expected instant
// with the expected layout through the same function and compares bytes.

func VH_C16() {
	vProduction()
	vStubTimeFormat(true)
	const dtBits = Ldate | Ltime | Lmicroseconds | LlocalTime
	flags = (LstdFlags &^ dtBits) | (Flags(vInt()) & dtBits)
	rec := &vRec{}
	lg := New("x").(*logimp).Entry
	lg.SetWriter(&recW{1, rec}).SetLevel(InfoLevel)
	fmtSel := vChoose(3)
	switch fmtSel {
	case 1:
		lg.SetJSONMode(true)
	case 2:
		lg.SetColorMode(false)
	}
	// UTC mode history: up to two SetUTCMode calls with 0/1/2 arguments
	mode := 0 // unset
	for k := vChoose(vParam("utccalls", 1) + 1); k > 0; k-- {
		bs, eff := vBoolArgs()
		lg.SetUTCMode(bs...)
		if eff {
			mode = 2
		} else {
			mode = 1
		}
	}
	// layout history
	custom := ""
	if vBool() {
		var ls []string
		custom = time.RFC3339Nano
		for k := vChoose(3); k > 0; k-- {
			l := []string{"", "Jan _2 15:04:05.000", time.Kitchen}[vChoose(3)]
			ls = append(ls, l)
			if l != "" {
				custom = l
			}
		}
		lg.SetTimeFormat(ls...)
	}
	// the record's instant: any second/nanosecond, in one of three zones
	sec := vInt()
	nsec := vInt()
	vAssume(sec > -1<<40 && sec < 1<<40 && nsec >= 0 && nsec < 1000000000)
	var loc *time.Location
	switch vChoose(3) {
	case 0:
		loc = time.UTC
	case 1:
		loc = time.FixedZone("E", 3600*5+1800)
	case 2:
		loc = time.FixedZone("W", -3600*8)
	}
	z := time.Unix(sec, nsec).In(loc)
	lg.WriteThru(vCtx, InfoLevel, z, 0, "m", nil)
	vAssert(len(rec.evs) == 1, "C16: one record")
	p := rec.evs[0].P
	// oracle
	exp := z
	if mode == 2 || (mode == 0 && flags&LlocalTime == 0) {
		exp = z.UTC()
	}
	vCover("C16:printed")
	var got string
	switch fmtSel {
	case 1:
		vAssert(strings.HasPrefix(p, `{"time":"`), "C16: JSON record starts with the time member")
		got = p[len(`{"time":"`):]
	case 2:
		vAssert(strings.HasPrefix(p, `time="`), "C16: logfmt record starts with the time pair")
		got = p[len(`time="`):]
	default:
		i := strings.IndexByte(p, 'm')
		vAssert(i > 0 && p[0] == 0x1b, "C16: colored record starts with an SGR sequence")
		got = p[i+1:]
	}
	end := `"`
	if fmtSel == 0 {
		end = "|"
	}
	if custom != "" {
		want := string(exp.AppendFormat(nil, custom)) + end
		vAssert(strings.HasPrefix(got, want), "C16: timestamp is the record's instant in the configured zone and the logger's layout")
		return
	}
	// no logger layout: the right instant and zone under one of the
	// library's flag-selected layouts, which must contain the selected parts
	found := false
	sel := flags & Ldatetimeflags
	for _, l := range []string{"2006-01-02", TimeNoNano, TimeNano, DateTime, RFC3339Nano} {
		if strings.HasPrefix(got, string(exp.AppendFormat(nil, l))+end) {
			found = true
			if sel&Ldate != 0 {
				vAssert(strings.Contains(l, "2006-01-02"), "C16: the date flag selects a layout with a date")
			}
			if sel&Ltime != 0 {
				vAssert(strings.Contains(l, "15:04:05"), "C16: the time flag selects a layout with the time of day")
			}
			if sel&Lmicroseconds != 0 {
				vAssert(strings.Contains(l, ".000000"), "C16: the microseconds flag selects a layout with a sub-second part")
			}
			if sel&Ldate == 0 && sel != 0 {
				vAssert(!strings.Contains(l, "2006"), "C16: no date part without the date flag")
			}
			break
		}
	}
	vAssert(found, "C16: timestamp is the record's instant in the configured zone under a flag-selected layout")
}
