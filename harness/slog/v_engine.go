package slog

// Engine-side declarations of the harness intrinsics: the bodies are never
// executed, the symbolic executor intercepts calls by name.

func vInt() int64            { return 0 }
func vInt32() int32          { return 0 }
func vUint64() uint64        { return 0 }
func vByte() byte            { return 0 }
func vBool() bool            { return false }
func vChoose(n int) int      { return 0 }
func vString(max int) string { return "" }
func vStringN(n int) string  { return "" }
func vAssume(c bool)         {}
func vAssert(c bool, label string) {}
func vCover(label string)    {}
func vConcrete(x int64) int64 { return x }
func vIsEngine() bool        { return false }
func vOut(s string)          {}
func vSame(key, val string)    {}
func vKnown(key string)               {}
func vParam(name string, def int) int { return def }
func vAnd(a, b bool) bool             { return a && b }
func vOr(a, b bool) bool              { return a || b }
func vNot(a bool) bool                { return !a }
func vIte(c bool, a, b int64) int64   { return a }
func vCatchExit(f func()) (int, bool) { f(); return 0, false }
type vStop struct{}
func vPermuteMaps(on bool) {}
func vStubTimeFormat(on bool) {}
func vFileData(id int) string { return "" }
func vFileWrites(id int) int  { return 0 }
func vMonitorWrites(on bool) {}
