package slog

import (
	"context"
	"fmt"
	logslog "log/slog"
	"runtime"
	"strings"

	errorsv3 "gopkg.in/hedzr/errors.v3"
)

// C14: caller attribution points at the user's call site for every entry
// point. Each entry point is called from a closure that first records its own
// function name and line (runtime.Caller on the same source line); the
// closure is invoked through a chain of wrappers and the logger skips n
// frames: the record must name the closure (n = 0) or the wrapper n levels
// up, with that wrapper's call line.

var (
	vC14Fn  string
	vC14Ln  int
	vC14WFn [4]string
	vC14WLn [4]int
)

// vC14MakeErr creates an error carrying stack info at a source position that
// is NOT the logging statement: the record's caller must not be confused
// with it.
//
//go:noinline
func vC14MakeErr() error { return errorsv3.New("boom") }

// vHere returns function name and line of its caller's current statement.
func vHere() (string, int) {
	pc, _, line, _ := runtime.Caller(1)
	return runtime.FuncForPC(pc).Name(), line
}

//go:noinline
func vC14W0(f func()) { vC14WFn[0], vC14WLn[0] = vHere(); f() }

//go:noinline
func vC14W1(f func()) { vC14WFn[1], vC14WLn[1] = vHere(); vC14W0(f) }

//go:noinline
func vC14W2(f func()) { vC14WFn[2], vC14WLn[2] = vHere(); vC14W1(f) }

//go:noinline
func vC14W3(f func()) { vC14WFn[3], vC14WLn[3] = vHere(); vC14W2(f) }

const vC14NumEntryPoints = 57

func VH_C14() {
	vProduction()
	flags = (LstdFlags | LnoInterrupt | Lcaller) &^ (Lprivacypath | Lprivacypathregexp | Lcallerpackagename)
	rec := &vRec{}
	var lgi Logger = New("x")
	lg := lgi.(*logimp).Entry
	kind := vChoose(4) // root, child, default logger's own tree, one of two WithSkip children
	if kind == 1 {
		lg = lg.New("child")
	}
	n := vChoose(vParam("skip", 2) + 1)
	if kind == 3 {
		// the skip count comes from WithSkip; a sibling with another count is derived afterwards
		base := lg
		lg = base.WithSkip(n)
		_ = base.WithSkip(n + 1)
	}
	lg.SetWriter(&recW{0, rec}).SetErrorWriter(&recW{0, rec}).SetLevel(TraceLevel)
	fmtSel := vChoose(3)
	switch fmtSel {
	case 1:
		lg.SetJSONMode(true)
	case 2:
		lg.SetColorMode(false)
	}
	if vBool() {
		SetDefault(&logimp{lg})
	} else {
		SetDefault(lg) // a child or a fluent chain's result is an *Entry, not the root wrapper
	}
	ctx := context.Background()
	std := logslog.New(&handler4LogSlog{&logimp{lg}})
	bridge := NewLogLogger(&logimp{lg}, AlwaysLevel) // a severity the bridge forwards whatever its admission test (C15)
	if kind != 3 {
		lg.SetSkip(vChoose(3)) // an earlier setting, replaced by the next one (also back to 0)
		lg.SetSkip(n)          // after the adapter and the bridge exist: the skip count in force is the logger's current one
	}
	stackErr := vC14MakeErr()
	eps := []func(){
		func() { vC14Fn, vC14Ln = vHere(); lg.Error("m") }, // Error
		func() { vC14Fn, vC14Ln = vHere(); lg.Warn("m") }, // Warn
		func() { vC14Fn, vC14Ln = vHere(); lg.Info("m") }, // Info
		func() { vC14Fn, vC14Ln = vHere(); lg.Print("m") }, // Print
		func() { vC14Fn, vC14Ln = vHere(); lg.OK("m") }, // OK
		func() { vC14Fn, vC14Ln = vHere(); lg.Success("m") }, // Success
		func() { vC14Fn, vC14Ln = vHere(); lg.Fail("m") }, // Fail
		func() { vC14Fn, vC14Ln = vHere(); lg.Println("m") }, // Println
		func() { vC14Fn, vC14Ln = vHere(); lg.Panic("m") }, // Panic
		func() { vC14Fn, vC14Ln = vHere(); lg.Fatal("m") }, // Fatal
		func() { vC14Fn, vC14Ln = vHere(); lg.ErrorContext(ctx, "m") }, // ErrorContext
		func() { vC14Fn, vC14Ln = vHere(); lg.WarnContext(ctx, "m") }, // WarnContext
		func() { vC14Fn, vC14Ln = vHere(); lg.InfoContext(ctx, "m") }, // InfoContext
		func() { vC14Fn, vC14Ln = vHere(); lg.PrintContext(ctx, "m") }, // PrintContext
		func() { vC14Fn, vC14Ln = vHere(); lg.OKContext(ctx, "m") }, // OKContext
		func() { vC14Fn, vC14Ln = vHere(); lg.SuccessContext(ctx, "m") }, // SuccessContext
		func() { vC14Fn, vC14Ln = vHere(); lg.FailContext(ctx, "m") }, // FailContext
		func() { vC14Fn, vC14Ln = vHere(); lg.PrintlnContext(ctx, "m") }, // PrintlnContext
		func() { vC14Fn, vC14Ln = vHere(); lg.PanicContext(ctx, "m") }, // PanicContext
		func() { vC14Fn, vC14Ln = vHere(); lg.FatalContext(ctx, "m") }, // FatalContext
		func() { vC14Fn, vC14Ln = vHere(); lg.LogAttrs(ctx, InfoLevel, "m") }, // LogAttrs
		func() { vC14Fn, vC14Ln = vHere(); lg.Logit(ctx, InfoLevel, "m") }, // Logit
		func() { vC14Fn, vC14Ln = vHere(); lg.Log(ctx, logslog.LevelInfo, "m") }, // Log
		func() { vC14Fn, vC14Ln = vHere(); _ = lg.Infof("%s", "m") }, // Infof
		func() { vC14Fn, vC14Ln = vHere(); _ = lg.Warnf("%s", "m") }, // Warnf
		func() { vC14Fn, vC14Ln = vHere(); _ = lg.Errorf("%s", "m") }, // Errorf
		func() { vC14Fn, vC14Ln = vHere(); _ = lg.Infof("m") }, // Infof without verbs or arguments
		func() { vC14Fn, vC14Ln = vHere(); _ = lg.Warnf("m") }, // Warnf without verbs or arguments
		func() { vC14Fn, vC14Ln = vHere(); _ = lg.Errorf("m") }, // Errorf without verbs or arguments
		func() { vC14Fn, vC14Ln = vHere(); Error("m") }, // pkg.Error
		func() { vC14Fn, vC14Ln = vHere(); Warn("m") }, // pkg.Warn
		func() { vC14Fn, vC14Ln = vHere(); Info("m") }, // pkg.Info
		func() { vC14Fn, vC14Ln = vHere(); Print("m") }, // pkg.Print
		func() { vC14Fn, vC14Ln = vHere(); OK("m") }, // pkg.OK
		func() { vC14Fn, vC14Ln = vHere(); Success("m") }, // pkg.Success
		func() { vC14Fn, vC14Ln = vHere(); Fail("m") }, // pkg.Fail
		func() { vC14Fn, vC14Ln = vHere(); Println("m") }, // pkg.Println
		func() { vC14Fn, vC14Ln = vHere(); Panic("m") }, // pkg.Panic
		func() { vC14Fn, vC14Ln = vHere(); Fatal("m") }, // pkg.Fatal
		func() { vC14Fn, vC14Ln = vHere(); ErrorContext(ctx, "m") }, // pkg.ErrorContext
		func() { vC14Fn, vC14Ln = vHere(); WarnContext(ctx, "m") }, // pkg.WarnContext
		func() { vC14Fn, vC14Ln = vHere(); InfoContext(ctx, "m") }, // pkg.InfoContext
		func() { vC14Fn, vC14Ln = vHere(); PrintContext(ctx, "m") }, // pkg.PrintContext
		func() { vC14Fn, vC14Ln = vHere(); OKContext(ctx, "m") }, // pkg.OKContext
		func() { vC14Fn, vC14Ln = vHere(); SuccessContext(ctx, "m") }, // pkg.SuccessContext
		func() { vC14Fn, vC14Ln = vHere(); FailContext(ctx, "m") }, // pkg.FailContext
		func() { vC14Fn, vC14Ln = vHere(); PrintlnContext(ctx, "m") }, // pkg.PrintlnContext
		func() { vC14Fn, vC14Ln = vHere(); PanicContext(ctx, "m") }, // pkg.PanicContext
		func() { vC14Fn, vC14Ln = vHere(); FatalContext(ctx, "m") }, // pkg.FatalContext
		func() { vC14Fn, vC14Ln = vHere(); std.Info("m") }, // log/slog adapter Info
		func() { vC14Fn, vC14Ln = vHere(); std.Error("m", "k", 1) }, // log/slog adapter Error
		func() { vC14Fn, vC14Ln = vHere(); std.Log(ctx, logslog.LevelWarn, "m") }, // log/slog adapter Log
		func() { vC14Fn, vC14Ln = vHere(); bridge.Print("m") }, // std log bridge Print
		func() { vC14Fn, vC14Ln = vHere(); bridge.Println("m") }, // std log bridge Println
		func() { vC14Fn, vC14Ln = vHere(); bridge.Printf("%s", "m") }, // std log bridge Printf
		func() { vC14Fn, vC14Ln = vHere(); lg.Error("m", "err", stackErr) }, // Error with a stack-carrying error attribute
		func() { vC14Fn, vC14Ln = vHere(); lg.InfoContext(ctx, "m", "err", stackErr, "k", 1) }, // InfoContext with a stack-carrying error attribute
	}
	e := vChoose(len(eps))
	vC14W3(eps[e])
	vCover("C14:called")
	vAssert(len(rec.evs) == 1, "C14: one record")
	p := rec.evs[0].P
	wantFn, wantLn := vC14Fn, vC14Ln
	if n > 0 {
		wantFn, wantLn = vC14WFn[n-1], vC14WLn[n-1]
	}
	var lineTok, fnTok string
	switch fmtSel {
	case 1:
		lineTok = fmt.Sprintf(`"line":%d,`, wantLn)
		fnTok = fmt.Sprintf(`"function":"%s"`, wantFn)
	case 2:
		lineTok = fmt.Sprintf(`caller.line=%d `, wantLn)
		fnTok = fmt.Sprintf(`caller.function="%s"`, wantFn)
	default:
		lineTok = fmt.Sprintf(`.go:%d `, wantLn)
		fnTok = wantFn[strings.LastIndex(wantFn, "/")+1:]
	}
	vAssert(strings.Contains(p, "zz_verif_c14.go"), "C14: the reported file is the file of the user's statement")
	vAssert(strings.Contains(p, lineTok), "C14: the reported line is the line of the user's statement (moved n frames up by the skip count)")
	vAssert(strings.Contains(p, fnTok), "C14: the reported function is the function of the user's statement (moved n frames up by the skip count)")
}
