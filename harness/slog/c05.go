package slog

import (
	"errors"
	"strconv"
	"strings"
	"time"
)

// C05: logfmt mode: one line of key=value pairs that parses back.

type vPair struct {
	k      string
	v      string // decoded value
	quoted bool
}

// vLogfmtParse tokenises one logfmt line (without the final newline).
// Values are bare tokens or Go-quoted strings (decoded with strconv.Unquote).
func vLogfmtParse(s string) (out []vPair, ok bool) {
	i := 0
	for i < len(s) {
		if s[i] == ' ' {
			i++
			continue
		}
		k0 := i
		for i < len(s) && s[i] != '=' && s[i] != ' ' && s[i] != '"' {
			i++
		}
		if i >= len(s) || s[i] != '=' || i == k0 {
			return nil, false
		}
		key := s[k0:i]
		i++
		if i < len(s) && s[i] == '"' {
			v0 := i
			i++
			for {
				if i >= len(s) {
					return nil, false
				}
				if s[i] == '\\' {
					i += 2
					continue
				}
				if s[i] == '"' {
					i++
					break
				}
				i++
			}
			if i > len(s) {
				return nil, false
			}
			dec, err := strconv.Unquote(s[v0:i])
			if err != nil {
				return nil, false
			}
			if i < len(s) && s[i] != ' ' {
				return nil, false
			}
			out = append(out, vPair{key, dec, true})
			continue
		}
		v0 := i
		for i < len(s) && s[i] != ' ' {
			if s[i] == '"' || s[i] == '=' {
				return nil, false
			}
			i++
		}
		out = append(out, vPair{key, s[v0:i], false})
	}
	return out, true
}

// vItem is one attribute of a list: its key, whether it is a group, and the
// range of expected pairs it contributes.
type vItem struct {
	key      string
	isGroup  bool
	from, to int
}

// vTagAfterGroup marks the expected pairs of every attribute that the
// library prints after a group of the same list (attributes are printed in
// key order, and a duplicate key keeps one of the two).
func vTagAfterGroup(items []vItem, tag func(j int)) {
	for _, x := range items {
		for _, g := range items {
			if g.isGroup && g.key <= x.key && !(g.key == x.key && g.from == x.from) {
				for j := x.from; j < x.to; j++ {
					tag(j)
				}
			}
		}
	}
}

func vLegalKey(n int) string {
	k := vString(n)
	vAssume(len(k) > 0)
	for i := 0; i < len(k); i++ {
		c := k[i]
		vAssume(c > 0x20 && c < 0x7f && c != '=' && c != '"' && c != '.') // (a backslash is a legal key byte: keys are written literally)
	}
	vAssume(k != "time" && k != "logger" && k != "level" && k != "msg")
	return k
}

const vC05Custom = Level(43)

func VH_C05() {
	vProduction() // production: no multi-line error dump
	_ = RegisterLevel(vC05Custom, "cfive")
	flags = LstdFlags &^ Lcaller
	caller := false
	if vParam("caller", 0) == 1 {
		caller = vBool()
		if caller {
			flags |= Lcaller
			flags &^= Lprivacypathregexp
		}
	}
	rec := &vRec{}
	lg := New("x").(*logimp).Entry
	lg.SetWriter(&recW{0, rec}).SetErrorWriter(&recW{0, rec}).SetLevel(TraceLevel).SetColorMode(false)
	if vParam("rtdebug", 0) == 1 && vBool() {
		// debug mode switched on after start-up (what SetLevel(DebugLevel) on any logger does):
		// still a production process
		New("dbg").SetLevel(DebugLevel)
	}
	type want struct {
		key    string
		val    string
		quoted bool
		known  string
		check  func(string) bool // when set: the parsed value must satisfy it (instead of equalling val)
	}
	var wants []want
	var attrs Attrs
	nA := vChoose(vParam("attrs", 2) + 1)
	msg := "m"
	sev := InfoLevel
	if nA == 0 {
		// every severity formats a record (only Print/Println render a blank message as an empty line: C02);
		// the other severities get messages of at most one byte (empty, blank, special, ordinary)
		sev = []Level{InfoLevel, ErrorLevel, DebugLevel, OKLevel, SuccessLevel, FailLevel, vC05Custom}[vChoose(vParam("sevs", 7))]
		if sev == InfoLevel {
			msg = vString(vParam("msg", 2))
		} else {
			msg = vString(1)
		}
		if vBool() {
			// longer texts with HTML-like markup, entities, leading blanks and CR (data, not markup, in logfmt)
			msg = vMarkupTexts[vChoose(len(vMarkupTexts))]
		}
	}
	afterGroup := false
	var mk func(prefix string, key string, d int) Attr
	mk = func(prefix, key string, d int) Attr {
		full := prefix + key
		switch vChoose(13) {
		case 0:
			s := vString(1)
			wants = append(wants, want{full, s, true, "", nil})
			return NewAttr(key, s)
		case 1:
			b := vBool()
			wants = append(wants, want{full, strconv.FormatBool(b), false, "", nil})
			return NewAttr(key, b)
		case 2:
			x := []int64{0, -1, 9223372036854775807, -9223372036854775808}[vChoose(4)]
			wants = append(wants, want{full, strconv.FormatInt(x, 10), false, "", nil})
			return NewAttr(key, x)
		case 3:
			wants = append(wants, want{full, "18446744073709551615", false, "", nil})
			return NewAttr(key, uint64(18446744073709551615))
		case 4:
			// float64 values, incl. one that is exactly representable as a float32 but needs all its float64 digits
			f := []float64{1.5, float64(float32(0.1)), 1e21, 5e-324, -0.25}[vChoose(5)]
			wants = append(wants, want{full, "", false, "", func(v string) bool {
				got, err := strconv.ParseFloat(v, 64)
				return err == nil && got == f
			}})
			return NewAttr(key, f)
		case 5:
			wants = append(wants, want{full, "1.5s", true, "", nil})
			return NewAttr(key, 1500*time.Millisecond)
		case 6:
			wants = append(wants, want{full, "boom", true, "", nil})
			return NewAttr(key, errors.New("boom"))
		case 7:
			wants = append(wants, want{full, "str", true, "", nil})
			return NewAttr(key, vStringerT{"str"})
		case 8:
			b := vString(1)
			wants = append(wants, want{full, b, true, "C05-byte-slices-written-raw", nil})
			return NewAttr(key, []byte(b))
		case 9:
			wants = append(wants, want{full, "<nil>", false, "", nil})
			return NewAttr(key, nil)
		case 11:
			t := vTimes()[vChoose(3)]
			wants = append(wants, want{full, "", true, "", func(v string) bool {
				got, err := time.Parse(time.RFC3339Nano, v)
				return err == nil && got.Equal(t)
			}})
			return NewAttr(key, t)
		case 12:
			d := []time.Duration{1, 90061000000001, -1500 * time.Millisecond}[vChoose(3)]
			wants = append(wants, want{full, "", true, "", func(v string) bool {
				got, err := time.ParseDuration(v)
				return err == nil && got == d
			}})
			return NewAttr(key, d)
		case 10:
			var members []any
			if d > 0 {
				var items []vItem
				for n := vChoose(3); n > 0; n-- {
					before := len(wants)
					afterGroup = false
					k := []string{"p", "q"}[n%2]
					members = append(members, mk(full+".", k, d-1))
					items = append(items, vItem{k, afterGroup, before, len(wants)})
				}
				vTagAfterGroup(items, func(j int) { wants[j].known = "C05-attribute-after-group-loses-its-key" })
			}
			afterGroup = true
			return Group(key, members...)
		}
		return nil
	}
	var items []vItem
	for n := 0; n < nA; n++ {
		var key string
		if vParam("key", 1) == 0 {
			key = []string{"a", "b", "c"}[n%3] // concrete keys: the run is about the values and their positions
		} else {
			key = vLegalKey(vParam("key", 1))
		}
		for _, it := range items {
			vAssume(it.key != key)
		}
		before := len(wants)
		afterGroup = false
		a := mk("", key, vParam("depth", 1))
		items = append(items, vItem{key, afterGroup, before, len(wants)})
		attrs = append(attrs, a)
	}
	vTagAfterGroup(items, func(j int) { wants[j].known = "C05-attribute-after-group-loses-its-key" })
	lg.WriteThru(vCtx, sev, vTime0(), 0, msg, attrs)
	vAssert(len(rec.evs) == 1, "C05: one record")
	p := rec.evs[0].P
	// the library orders attributes by key: any order of the pairs is accepted
	for _, w := range wants {
		if w.known != "" {
			vKnown(w.known)
		}
	}
	vCover("C05:rendered")
	n := len(p)
	vAssert(n > 0 && p[n-1] == '\n' && strings.Count(p, "\n") == 1, "C05: the record is exactly one line")
	pairs, ok := vLogfmtParse(p[:n-1])
	vAssert(ok, "C05: the line is space-separated key=value pairs with properly quoted values")
	if !ok {
		return
	}
	vAssert(len(pairs) >= 4 && pairs[0].k == "time" && pairs[1].k == "logger" && pairs[2].k == "level" && pairs[3].k == "msg",
		"C05: the line starts with time, logger, level, msg")
	if len(pairs) < 4 {
		return
	}
	vAssert(pairs[1].v == "x" && pairs[2].v == sev.String(), "C05: logger and level values")
	vAssert(pairs[3].quoted && pairs[3].v == msg, "C05: msg parses back to the message")
	rest := pairs[4:]
	if caller {
		vAssert(len(rest) >= 3, "C05: caller fields present")
		rest = rest[:len(rest)-3]
	}
	vAssert(len(rest) == len(wants), "C05: one pair per logged attribute and no forged pair")
	for _, w := range wants {
		found := 0
		for _, pr := range rest {
			if pr.k == w.key {
				found++
				if w.check != nil {
					vAssert(w.check(pr.v), "C05: the attribute parses back to its exact value")
				} else {
					vAssert(pr.v == w.val, "C05: the attribute parses back to its exact value")
				}
				if w.quoted {
					vAssert(pr.quoted, "C05: string-like values are quoted")
				}
			}
		}
		vAssert(found == 1, "C05: every attribute appears under its own key (group members under dotted keys)")
	}
}

// VH_C05R: the rune kernel. The message (or a string value) is one arbitrary
// Unicode scalar value, so every rune class of the quoter (printable, control,
// U+FFFD itself, non-printable BMP and astral runes) is reached with 1..4 bytes.
func VH_C05R() {
	vProduction()
	flags = LstdFlags &^ Lcaller
	rec := &vRec{}
	lg := New("x").(*logimp).Entry
	lg.SetWriter(&recW{0, rec}).SetErrorWriter(&recW{0, rec}).SetLevel(TraceLevel).SetColorMode(false)
	r := rune(vInt32())
	vAssume(r >= 0 && r <= 0x10FFFF && !(r >= 0xD800 && r <= 0xDFFF))
	s := "a" + string(r) + "b"
	asValue := vBool()
	msg := "m"
	var attrs Attrs
	if asValue {
		attrs = Attrs{NewAttr("k", s)}
	} else {
		msg = s
	}
	lg.WriteThru(vCtx, InfoLevel, vTime0(), 0, msg, attrs)
	p := rec.evs[0].P
	n := len(p)
	vCover("C05R:rendered")
	vAssert(n > 0 && p[n-1] == '\n' && strings.Count(p, "\n") == 1, "C05: the record is exactly one line")
	pairs, ok := vLogfmtParse(p[:n-1])
	vAssert(ok && len(pairs) >= 4, "C05: the line is space-separated key=value pairs with properly quoted values")
	if !ok || len(pairs) < 4 {
		return
	}
	if asValue {
		vAssert(len(pairs) == 5 && pairs[4].k == "k" && pairs[4].quoted && pairs[4].v == s, "C05: a string value parses back to its exact value")
	} else {
		vAssert(pairs[3].quoted && pairs[3].v == s, "C05: msg parses back to the message")
	}
}
