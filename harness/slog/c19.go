package slog

import (
	"bytes"
	"io"
	"strings"
)

// C19: PrintCtx's buffer API is observationally equivalent to bytes.Buffer.
// The reference is the standard library's bytes.Buffer itself, executed by
// the same engine; both objects receive the same symbolic operations.

type vScriptReader struct {
	data  []byte
	mode  int // 0: all data then EOF; 1: data then a non-EOF error; 2: negative count
	calls int
}

func (r *vScriptReader) Read(p []byte) (int, error) {
	r.calls++
	switch r.mode {
	case 2:
		return -1, nil
	case 1:
		if r.calls == 1 {
			n := copy(p, r.data)
			return n, errVFault
		}
		return 0, errVFault
	}
	if r.calls == 1 && len(r.data) > 0 {
		n := copy(p, r.data)
		return n, nil
	}
	return 0, io.EOF
}

type vScriptWriter struct {
	take int // bytes accepted (may be < len(p), or > len(p) for the invalid-count panic)
	fail bool
	got  []byte
}

func (w *vScriptWriter) Write(p []byte) (int, error) {
	n := w.take
	if n <= len(p) {
		w.got = append(w.got, p[:n]...)
	}
	if w.fail {
		return n, errVFault
	}
	return n, nil
}

// vCatchPanic runs f and reports whether it panicked (with the message text
// after the package prefix, which differs between the two types by design).
func vCatchPanic(f func()) (panicked bool, msg string) {
	defer func() {
		if r := recover(); r != nil {
			if _, stop := r.(vStop); stop {
				panic(r)
			}
			panicked = true
			switch x := r.(type) {
			case string:
				msg = x
			case error:
				msg = x.Error()
			default:
				msg = "?"
			}
			for _, pre := range []string{"bytes.Buffer", "logg/slog.PrintCtx"} {
				msg = strings.TrimPrefix(msg, pre)
			}
		}
	}()
	f()
	return
}

func vSameErr(a, b error) bool {
	if a == nil || b == nil {
		return a == nil && b == nil
	}
	if a == io.EOF || b == io.EOF {
		return a == b
	}
	if a == io.ErrShortWrite || b == io.ErrShortWrite {
		return a == b
	}
	if a == errVFault || b == errVFault {
		return a == b
	}
	return true // both are the types' own errors (messages differ by the package prefix)
}

func vBufStep(pc *PrintCtx, bb *bytes.Buffer, maxArg int) {
	op := vChoose(20)
	var p1, p2 bool
	var m1, m2 string
	switch op {
	case 0:
		d := []byte(vString(maxArg))
		var n1, n2 int
		var e1, e2 error
		p1, m1 = vCatchPanic(func() { n1, e1 = pc.Write(d) })
		p2, m2 = vCatchPanic(func() { n2, e2 = bb.Write(d) })
		vAssert(n1 == n2 && vSameErr(e1, e2), "C19: Write results")
	case 1:
		d := vString(maxArg)
		var n1, n2 int
		var e1, e2 error
		p1, m1 = vCatchPanic(func() { n1, e1 = pc.WriteString(d) })
		p2, m2 = vCatchPanic(func() { n2, e2 = bb.WriteString(d) })
		vAssert(n1 == n2 && vSameErr(e1, e2), "C19: WriteString results")
	case 2:
		c := vByte()
		var e1, e2 error
		p1, m1 = vCatchPanic(func() { e1 = pc.WriteByte(c) })
		p2, m2 = vCatchPanic(func() { e2 = bb.WriteByte(c) })
		vAssert(vSameErr(e1, e2), "C19: WriteByte results")
	case 3:
		r := rune(vInt32())
		var n1, n2 int
		var e1, e2 error
		p1, m1 = vCatchPanic(func() { n1, e1 = pc.WriteRune(r) })
		p2, m2 = vCatchPanic(func() { n2, e2 = bb.WriteRune(r) })
		vAssert(n1 == n2 && vSameErr(e1, e2), "C19: WriteRune results")
	case 4:
		k := vChoose(maxArg + 2)
		b1, b2 := make([]byte, k), make([]byte, k)
		var n1, n2 int
		var e1, e2 error
		p1, m1 = vCatchPanic(func() { n1, e1 = pc.Read(b1) })
		p2, m2 = vCatchPanic(func() { n2, e2 = bb.Read(b2) })
		vAssert(n1 == n2 && vSameErr(e1, e2) && string(b1) == string(b2), "C19: Read results")
	case 5:
		var c1, c2 byte
		var e1, e2 error
		p1, m1 = vCatchPanic(func() { c1, e1 = pc.ReadByte() })
		p2, m2 = vCatchPanic(func() { c2, e2 = bb.ReadByte() })
		vAssert(c1 == c2 && vSameErr(e1, e2), "C19: ReadByte results")
	case 6:
		var r1, r2 rune
		var n1, n2 int
		var e1, e2 error
		p1, m1 = vCatchPanic(func() { r1, n1, e1 = pc.ReadRune() })
		p2, m2 = vCatchPanic(func() { r2, n2, e2 = bb.ReadRune() })
		vAssert(r1 == r2 && n1 == n2 && vSameErr(e1, e2), "C19: ReadRune results")
	case 7:
		var e1, e2 error
		p1, m1 = vCatchPanic(func() { e1 = pc.UnreadByte() })
		p2, m2 = vCatchPanic(func() { e2 = bb.UnreadByte() })
		vAssert((e1 == nil) == (e2 == nil), "C19: UnreadByte results")
	case 8:
		var e1, e2 error
		p1, m1 = vCatchPanic(func() { e1 = pc.UnreadRune() })
		p2, m2 = vCatchPanic(func() { e2 = bb.UnreadRune() })
		vAssert((e1 == nil) == (e2 == nil), "C19: UnreadRune results")
	case 9:
		n := vChoose(maxArg+4) - 1 // -1 .. maxArg+2
		var d1, d2 []byte
		p1, m1 = vCatchPanic(func() { d1 = pc.Next(n) })
		p2, m2 = vCatchPanic(func() { d2 = bb.Next(n) })
		vAssert(string(d1) == string(d2), "C19: Next results")
	case 10:
		c := vByte()
		var d1, d2 []byte
		var e1, e2 error
		p1, m1 = vCatchPanic(func() { d1, e1 = pc.ReadBytes(c) })
		p2, m2 = vCatchPanic(func() { d2, e2 = bb.ReadBytes(c) })
		vAssert(string(d1) == string(d2) && vSameErr(e1, e2), "C19: ReadBytes results")
	case 11:
		c := vByte()
		var d1, d2 string
		var e1, e2 error
		p1, m1 = vCatchPanic(func() { d1, e1 = pc.ReadString(c) })
		p2, m2 = vCatchPanic(func() { d2, e2 = bb.ReadString(c) })
		vAssert(d1 == d2 && vSameErr(e1, e2), "C19: ReadString results")
	case 12:
		data := []byte(vString(maxArg))
		mode := vChoose(3)
		var n1, n2 int64
		var e1, e2 error
		p1, m1 = vCatchPanic(func() { n1, e1 = pc.ReadFrom(&vScriptReader{data: data, mode: mode}) })
		p2, m2 = vCatchPanic(func() { n2, e2 = bb.ReadFrom(&vScriptReader{data: data, mode: mode}) })
		vAssert(n1 == n2 && vSameErr(e1, e2), "C19: ReadFrom results")
	case 13:
		take := vChoose(maxArg+6) // may exceed the content: invalid Write count
		fail := vBool()
		w1, w2 := &vScriptWriter{take: take, fail: fail}, &vScriptWriter{take: take, fail: fail}
		var n1, n2 int64
		var e1, e2 error
		p1, m1 = vCatchPanic(func() { n1, e1 = pc.WriteTo(w1) })
		p2, m2 = vCatchPanic(func() { n2, e2 = bb.WriteTo(w2) })
		vAssert(n1 == n2 && vSameErr(e1, e2) && string(w1.got) == string(w2.got), "C19: WriteTo results")
	case 14:
		n := vChoose(maxArg+6) - 1
		p1, m1 = vCatchPanic(func() { pc.Truncate(n) })
		p2, m2 = vCatchPanic(func() { bb.Truncate(n) })
	case 15:
		n := vChoose(8) - 1
		switch vChoose(3) {
		case 1:
			n += 62 // around smallBufferSize
		case 2:
			n += 510 // around MinRead
		}
		p1, m1 = vCatchPanic(func() { pc.Grow(n) })
		p2, m2 = vCatchPanic(func() { bb.Grow(n) })
	case 16:
		pc.Reset()
		bb.Reset()
	case 17, 18, 19:
		// pure observers: compared below on every step
	}
	vAssert(p1 == p2, "C19: same panic-or-not")
	if p1 {
		vAssert(m1 == m2, "C19: same panic message after the package prefix")
	}
	vAssert(pc.Len() == bb.Len(), "C19: same Len()")
	vAssert(pc.String() == bb.String(), "C19: same remaining contents (String)")
	vAssert(string(pc.Bytes()) == string(bb.Bytes()), "C19: same remaining contents (Bytes)")
	// make the "last read" state observable after every step: probe copies
	// of both buffers with the two Unread operations
	pcA, bbA := *pc, *bb
	ur1, ur2 := pcA.UnreadRune(), bbA.UnreadRune()
	vAssert((ur1 == nil) == (ur2 == nil) && pcA.Len() == bbA.Len(), "C19: same behaviour of a following UnreadRune")
	pcB, bbB := *pc, *bb
	ub1, ub2 := pcB.UnreadByte(), bbB.UnreadByte()
	vAssert((ub1 == nil) == (ub2 == nil) && pcB.Len() == bbB.Len(), "C19: same behaviour of a following UnreadByte")
}

func VH_C19() {
	fill := vParam("fill", 2)
	maxArg := vParam("arg", 2)
	steps := vParam("steps", 2)
	pre := vString(fill)
	if vParam("runes", 0) == 1 {
		// well-formed multi-byte content in front of the arbitrary bytes: U+FFFD itself (EF BF BD), a 2- and a 4-byte rune
		pre = []string{"\uFFFD", "\u00e9", "\U0001F600", "a\uFFFDb"}[vChoose(4)] + pre
	}
	spare := vChoose(vParam("spare", 2) + 1)
	b1 := make([]byte, len(pre), len(pre)+spare)
	b2 := make([]byte, len(pre), len(pre)+spare)
	copy(b1, pre)
	copy(b2, pre)
	var pc *PrintCtx
	var bb *bytes.Buffer
	if vBool() {
		pc, bb = NewPrintCtx(b1), bytes.NewBuffer(b2)
	} else {
		pc, bb = NewPrintCtxString(pre), bytes.NewBufferString(pre)
	}
	// prelude: one canned read operation, so that the arbitrary steps start
	// from every "last read" state (none / byte read / rune read of each width)
	if vParam("prelude", 0) == 1 {
		switch vChoose(3) {
		case 1:
			c1, e1 := pc.ReadByte()
			c2, e2 := bb.ReadByte()
			vAssert(c1 == c2 && vSameErr(e1, e2), "C19: ReadByte results")
		case 2:
			r1, n1, e1 := pc.ReadRune()
			r2, n2, e2 := bb.ReadRune()
			vAssert(r1 == r2 && n1 == n2 && vSameErr(e1, e2), "C19: ReadRune results")
		}
	}
	for k := 0; k < steps; k++ {
		vBufStep(pc, bb, maxArg)
	}
	vCover("C19:done")
}
