package slog

import "context"

// C12: Panic and Fatal write the record first, then terminate as documented.

// bits of Flags the print path reads (kept at their defaults: formatting is
// the subject of other properties)
const vPrintFlagBits = Ldate | Ltime | Lmicroseconds | LlocalTime | Lattrs | LattrsR | Llineno | Lcaller |
	Lcallerpackagename | Lprivacypath | Lprivacypathregexp | LsmartJSONMode

const vC12AsPanic, vC12AsFatal = Level(50), Level(51)

func VH_C12() {
	vProduction()
	_ = RegisterLevel(vC12AsPanic, "aspanic", RegWithTreatedAsLevel(PanicLevel))
	_ = RegisterLevel(vC12AsFatal, "asfatal", RegWithTreatedAsLevel(FatalLevel))
	inTesting = vBool()
	flags = (LstdFlags & vPrintFlagBits) | (Flags(vInt()) &^ vPrintFlagBits)
	noInt := flags&LnoInterrupt == LnoInterrupt
	always := flags&Linterruptalways != 0
	testing := inTesting
	L := Level(vInt())
	rec := &vRec{}
	lgi := New("x")
	lg := lgi.(*logimp).Entry
	lg.SetWriter(&recW{1, rec}).SetErrorWriter(&recW{2, rec}).SetLevel(L)
	dbg := L == DebugLevel
	fmtSel := vChoose(3)
	switch fmtSel {
	case 1:
		lg.SetJSONMode(true)
	case 2:
		lg.SetColorMode(false)
	}
	// the message: plain, or containing colour markup and entities (it is the panic value as given)
	vEntryMsg = []string{"m", "q <b>x</b> R&amp;D"}[vChoose(2)]
	SetDefault(lgi)
	// the recorded package level is whatever an earlier package-level SetLevel left:
	// it must not matter once the default logger has been replaced
	lvlCurrent = Level(vInt())
	e := vChoose(vNumEntryPoints)
	// the context: a real one, or nil on a logger with registered context keys (treated as an empty context)
	var ctx context.Context = context.Background()
	if vBool() {
		lg.SetContextKeys("ck")
		ctx = nil
	}
	var sev Level
	if e == 24 || e == 25 {
		// every built-in severity, and two registered ones that are GATED as Panic / Fatal: only the
		// explicit Panic and Fatal severities terminate
		sev = Level(vChoose(17) - 1)
		if sev == 14 {
			sev = vC12AsPanic
		} else if sev == 15 {
			sev = vC12AsFatal
		}
	}
	var r Level
	var ok bool
	var panicked bool
	var pv any
	var evsAtTermination int
	code, exited := vCatchExit(func() {
		defer func() {
			if x := recover(); x != nil {
				if _, stop := x.(vStop); stop {
					panic(x)
				}
				panicked, pv = true, x
				evsAtTermination = len(rec.evs)
			}
		}()
		r, ok = vEntryPoint(e, lg, ctx, sev)
	})
	if exited {
		evsAtTermination = len(rec.evs)
		// the entry point did not return: recompute its severity
		switch e {
		case 11, 23, 46, 58:
			r, ok = FatalLevel, true
		case 10, 22, 45, 57:
			r, ok = PanicLevel, true
		case 24, 25:
			r, ok = sev, true
		default:
			vAssert(false, "C12: a non-Fatal entry point exited the process (exit)")
		}
	} else if panicked {
		switch e {
		case 10, 22, 45, 57:
			r, ok = PanicLevel, true
		case 11, 23, 46, 58:
			r, ok = FatalLevel, true
		case 24, 25:
			r, ok = sev, true
		default:
			vAssert(false, "C12: an entry point of non-terminating severity panicked")
		}
	}
	if !ok {
		return
	}
	gate := r
	if r == vC12AsPanic {
		gate = PanicLevel
	} else if r == vC12AsFatal {
		gate = FatalLevel
	}
	admitted := vSpecEnabled(L, gate, dbg, nil)
	if e == 33 || e == 34 || e == 59 || e == 60 {
		admitted = false
	}
	mayTerminate := vAnd(admitted, vAnd(!noInt, vOr(!testing, always)))
	wantPanic := vAnd(mayTerminate, r == PanicLevel)
	wantExit := vAnd(mayTerminate, r == FatalLevel)
	vCover("C12:reached")
	if panicked {
		vCover("C12:panicked")
	}
	if exited {
		vCover("C12:exited")
	}
	vAssert(panicked == wantPanic, "C12: panics iff admitted Panic severity and interruption enabled")
	vAssert(exited == wantExit, "C12: exits iff admitted Fatal severity and interruption enabled (exit)")
	if panicked {
		s, isStr := pv.(string)
		vAssert(isStr && s == vEntryMsg, "C12: the panic value is the message")
	}
	if exited {
		vAssert(code == -3, "C12: exit status is -3 (exit)")
	}
	if panicked || exited {
		vAssert(evsAtTermination == 1, "C12: the record is written before terminating (exit)")
		p := rec.evs[0].P
		vAssert(len(p) > 0 && p[len(p)-1] == '\n', "C12: the record written before terminating is complete (exit)")
		vAssert(rec.evs[0].W == 2, "C12: Panic/Fatal records go to the error writer (exit)")
	}
}
