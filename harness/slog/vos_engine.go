package slog

import "os"

func vFile(id int) *os.File { return nil }
