package slog

// vHarnesses lists every harness by name (used by the native replay driver).
var vHarnesses = map[string]func(){
	"VH_Smoke": VH_Smoke,
	"VH_T0":    VH_T0,
	"VH_T1":    VH_T1,
	"VH_C01A":  VH_C01A,
	"VH_C01B":  VH_C01B,
	"VH_C11":   VH_C11,
	"VH_C12":   VH_C12,
	"VH_C19":   VH_C19,
	"VH_C07":   VH_C07,
	"VH_C07G":  VH_C07G,
	"VH_C07L":  VH_C07L,
	"VH_C02":   VH_C02,
	"VH_C13":   VH_C13,
	"VH_C03":   VH_C03,
	"VH_C03N":  VH_C03N,
	"VH_C16":   VH_C16,
	"VH_C18":   VH_C18,
	"VH_C17R":  VH_C17R,
	"VH_C17N":  VH_C17N,
	"VH_C17T":  VH_C17T,
	"VH_C17B":  VH_C17B,
}
