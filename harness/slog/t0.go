package slog

// VH_T0 is an engine self-test harness: integer reasoning and forking.
func VH_T0() {
	x := vInt()
	y := vInt()
	vAssume(x > 0 && x < 100)
	vAssume(y > 0 && y < 100)
	s := x + y
	if s > 150 {
		vCover("big")
		vAssert(x > 50, "x>50 when sum>150")
	} else {
		vCover("small")
	}
	vAssert(s != 77 || x != 40, "planted: x=40,y=37")
}

// VH_T1: strings and maps
func VH_T1() {
	s := vString(2)
	m := map[string]int{"ab": 1, "c": 2}
	v, ok := m[s]
	if ok {
		vCover("found")
		vAssert(v == 1 || v == 2, "value")
		vAssert(len(s) > 0, "nonempty")
	}
	b := []byte(s)
	n := 0
	for _, c := range b {
		if c == 'x' {
			n++
		}
	}
	vAssert(n <= 2, "count")
	vAssert(n < 2, "planted: xx")
}
