package slog

import (
	"io"
	"os"
)

// C03: severity routing and writer-set configuration follow the documented
// model. The harness keeps the configuration the operation sequence denotes
// and compares, for a probe record, which writers receive it.

const (
	vWStdout = 100 // ids of the default sinks in the model
	vWStderr = 101
)

type vCfg struct {
	normal, errw []int
	leveled      map[Level][]int
}

func vDel(xs []int, w int) []int {
	for i, x := range xs {
		if x == w {
			return append(append([]int{}, xs[:i]...), xs[i+1:]...)
		}
	}
	return xs
}

func vErrorClass(r Level, customErr Level, hasCustomErr bool) bool {
	switch r {
	case PanicLevel, FatalLevel, ErrorLevel, WarnLevel, FailLevel:
		return true
	}
	return hasCustomErr && r == customErr
}

func VH_C03() {
	vProduction()
	os.Stdout = vFile(1)
	os.Stderr = vFile(2)
	defaultWriter = newDualWriter() // what init() builds, now over the recording sinks
	vAssert(len(defaultWriter.Normal) == 1 && len(defaultWriter.Error) == 1, "C03: the package defaults are one normal and one error sink")
	// two custom levels: one registered for the error device, one not
	const cErr, cNorm = Level(40), Level(41)
	_ = RegisterLevel(cErr, "cerr", RegWithPrintToErrorDevice(true))
	_ = RegisterLevel(cNorm, "cnorm")
	levels := []Level{InfoLevel, ErrorLevel, cErr, cNorm, DebugLevel, WarnLevel, FailLevel, OKLevel, AlwaysLevel, PanicLevel}

	rec := &vRec{}
	ls := &recLS{id: 3, r: rec}
	pool := []io.Writer{&recW{0, rec}, &recW{1, rec}, &recLW{2, rec}, ls}
	cfg := vCfg{normal: []int{vWStdout}, errw: []int{vWStderr}, leveled: map[Level][]int{}}
	lg := New("x").(*logimp).Entry
	lg.SetColorMode(false)

	steps := vParam("steps", 2)
	for k := 0; k < steps; k++ {
		op := vChoose(11)
		w := -1
		var wr io.Writer
		if op <= 7 {
			w = vChoose(len(pool)+1) - 1 // -1 = nil writer
			if w >= 0 {
				wr = pool[w]
			}
		}
		var l Level
		if op >= 6 && op <= 8 {
			l = levels[vChoose(4)]
		}
		plain := w == 0 || w == 1
		switch op {
		case 0:
			lg.SetWriter(wr)
			if w >= 0 {
				cfg.normal = []int{w}
			}
		case 1:
			lg.AddWriter(wr)
			if w >= 0 {
				cfg.normal = append(cfg.normal, w)
			}
		case 2:
			if plain {
				vKnown("C03-remove-never-removes-plain-writer")
			}
			lg.RemoveWriter(wr)
			if w >= 0 {
				cfg.normal = vDel(cfg.normal, w)
			}
		case 3:
			lg.SetErrorWriter(wr)
			if w >= 0 {
				cfg.errw = []int{w}
			}
		case 4:
			lg.AddErrorWriter(wr)
			if w >= 0 {
				cfg.errw = append(cfg.errw, w)
			}
		case 5:
			vKnown("C03-removeerrorwriter-nil-test-inverted")
			lg.RemoveErrorWriter(wr)
			if w >= 0 {
				cfg.errw = vDel(cfg.errw, w)
			}
		case 6:
			lg.AddLevelWriter(l, wr)
			if w >= 0 {
				cfg.leveled[l] = append(cfg.leveled[l], w)
			}
		case 7:
			if plain {
				vKnown("C03-remove-never-removes-plain-writer")
			}
			lg.RemoveLevelWriter(l, wr)
			if w >= 0 {
				cfg.leveled[l] = vDel(cfg.leveled[l], w)
			}
		case 8:
			lg.ResetLevelWriter(l)
			delete(cfg.leveled, l)
		case 9:
			lg.ResetLevelWriters()
			cfg.leveled = map[Level][]int{}
		case 10:
			lg.ResetWriters()
			cfg = vCfg{normal: []int{vWStdout}, errw: []int{vWStderr}, leveled: map[Level][]int{}}
		}
	}
	// probe
	r := levels[vChoose(len(levels))]
	var want []int
	switch {
	case len(cfg.leveled[r]) > 0:
		want = cfg.leveled[r]
	case vErrorClass(r, cErr, true):
		want = cfg.errw
	default:
		want = cfg.normal
	}
	pmsg := "m"
	if r == AlwaysLevel && vBool() {
		pmsg = "" // a blank Print-severity record (one empty line) is routed and announced like any other
	}
	lg.WriteThru(vCtx, r, vTime0(), 0, pmsg, nil)
	vCover("C03:probed")
	cnt := func(xs []int, w int) int {
		n := 0
		for _, x := range xs {
			if x == w {
				n++
			}
		}
		return n
	}
	for w := 0; w < len(pool); w++ {
		vAssert(rec.count(w) == cnt(want, w), "C03: each pool writer receives the record exactly as often as the denoted configuration selects it")
	}
	vAssert(vFileWrites(1) == cnt(want, vWStdout), "C03: stdout receives the record iff the configuration selects it")
	vAssert(vFileWrites(2) == cnt(want, vWStderr), "C03: stderr receives the record iff the configuration selects it")
	if cnt(want, 3) > 0 {
		vKnown("C03-levelsettable-never-told")
		for _, e := range rec.evs {
			if e.W == 3 {
				vAssert(e.HasLvl && e.Lvl == r, "C03: a destination that asks for the severity is told it immediately before the Write")
			}
		}
		vKnown("")
	}
}

// VH_C03N: New(name, options...) builds the configuration its writer
// options denote, in order.
func VH_C03N() {
	vProduction()
	os.Stdout = vFile(1)
	os.Stderr = vFile(2)
	defaultWriter = newDualWriter()
	rec := &vRec{}
	pool := []io.Writer{&recW{0, rec}, &recLW{1, rec}}
	cfg := vCfg{normal: []int{vWStdout}, errw: []int{vWStderr}, leveled: map[Level][]int{}}
	var opts []any
	opts = append(opts, "x")
	for k := vChoose(vParam("opts", 2) + 1); k > 0; k-- {
		w := vChoose(2)
		switch vChoose(9) {
		case 0:
			opts = append(opts, WithWriter(pool[w]))
			cfg.normal = []int{w}
		case 1:
			opts = append(opts, AddWriter(pool[w]))
			cfg.normal = append(cfg.normal, w)
		case 2:
			opts = append(opts, WithErrorWriter(pool[w]))
			cfg.errw = []int{w}
		case 3:
			opts = append(opts, AddErrorWriter(pool[w]))
			cfg.errw = append(cfg.errw, w)
		case 4:
			l := []Level{InfoLevel, ErrorLevel}[vChoose(2)]
			opts = append(opts, AddLevelWriter(l, pool[w]))
			cfg.leveled[l] = append(cfg.leveled[l], w)
		case 5:
			opts = append(opts, ResetWriters())
			cfg = vCfg{normal: []int{vWStdout}, errw: []int{vWStderr}, leveled: map[Level][]int{}}
		case 6:
			// the option forms of the per-level removals
			l := []Level{InfoLevel, ErrorLevel}[vChoose(2)]
			opts = append(opts, ResetLevelWriter(l))
			delete(cfg.leveled, l)
		case 7:
			opts = append(opts, ResetLevelWriters())
			cfg.leveled = map[Level][]int{}
		case 8:
			l := []Level{InfoLevel, ErrorLevel}[vChoose(2)]
			opts = append(opts, RemoveLevelWriter(l, pool[w]))
			cfg.leveled[l] = vDel(cfg.leveled[l], w)
		}
	}
	lg := New(opts...).(*logimp).Entry
	lg.SetColorMode(false)
	r := []Level{InfoLevel, ErrorLevel, DebugLevel}[vChoose(3)]
	var want []int
	switch {
	case len(cfg.leveled[r]) > 0:
		want = cfg.leveled[r]
	case vErrorClass(r, 0, false):
		want = cfg.errw
	default:
		want = cfg.normal
	}
	lg.WriteThru(vCtx, r, vTime0(), 0, "m", nil)
	vCover("C03N:probed")
	cnt := func(xs []int, w int) int {
		n := 0
		for _, x := range xs {
			if x == w {
				n++
			}
		}
		return n
	}
	for w := 0; w < len(pool); w++ {
		vAssert(rec.count(w) == cnt(want, w), "C03: New(...) writer options denote the configuration")
	}
	vAssert(vFileWrites(1) == cnt(want, vWStdout), "C03: New(...): stdout iff selected")
	vAssert(vFileWrites(2) == cnt(want, vWStderr), "C03: New(...): stderr iff selected")
}

// VH_C03I: the inductive form. The writer configuration is built directly in
// the dualWriter fields from an arbitrary pre-state over the pool (lists of
// length <= 2, members wrapped exactly as the public API wraps them, which
// is the representation invariant), then ONE arbitrary operation is applied
// and a probe record must reach exactly the writers of the model's
// post-state. One step from every state covers histories of any length.
func VH_C03I() {
	vProduction()
	os.Stdout = vFile(1)
	os.Stderr = vFile(2)
	defaultWriter = newDualWriter()
	rec := &vRec{}
	ls := &recLS{id: 3, r: rec}
	pool := []io.Writer{&recW{0, rec}, &recW{1, rec}, &recLW{2, rec}, ls}
	wrap := func(w int) LogWriter {
		if lw, ok := pool[w].(LogWriter); ok {
			return lw
		}
		return &logwr{pool[w]}
	}
	pick := func(max int) (ids []int, ws LWs) {
		for n := vChoose(max + 1); n > 0; n-- {
			w := vChoose(len(pool))
			ids = append(ids, w)
			ws = append(ws, wrap(w))
		}
		return
	}
	lg := New("x").(*logimp).Entry
	lg.SetColorMode(false)
	lg.writer = &dualWriter{}
	cfg := vCfg{leveled: map[Level][]int{}}
	cfg.normal, lg.writer.Normal = pick(2)
	cfg.errw, lg.writer.Error = pick(1)
	levels := []Level{InfoLevel, ErrorLevel}
	if vBool() {
		ids, ws := pick(1)
		if len(ids) > 0 {
			lg.writer.leveled = map[Level]LWs{InfoLevel: ws}
			cfg.leveled[InfoLevel] = ids
		}
	}
	op := vChoose(11)
	w := -1
	var wr io.Writer
	if op <= 7 {
		w = vChoose(len(pool)+1) - 1
		if w >= 0 {
			wr = pool[w]
		}
	}
	var l Level
	if op >= 6 && op <= 8 {
		l = levels[vChoose(2)]
	}
	switch op {
	case 0:
		lg.SetWriter(wr)
		if w >= 0 {
			cfg.normal = []int{w}
		}
	case 1:
		lg.AddWriter(wr)
		if w >= 0 {
			cfg.normal = append(cfg.normal, w)
		}
	case 2:
		lg.RemoveWriter(wr)
		if w >= 0 {
			cfg.normal = vDel(cfg.normal, w)
		}
	case 3:
		lg.SetErrorWriter(wr)
		if w >= 0 {
			cfg.errw = []int{w}
		}
	case 4:
		lg.AddErrorWriter(wr)
		if w >= 0 {
			cfg.errw = append(cfg.errw, w)
		}
	case 5:
		lg.RemoveErrorWriter(wr)
		if w >= 0 {
			cfg.errw = vDel(cfg.errw, w)
		}
	case 6:
		lg.AddLevelWriter(l, wr)
		if w >= 0 {
			cfg.leveled[l] = append(cfg.leveled[l], w)
		}
	case 7:
		lg.RemoveLevelWriter(l, wr)
		if w >= 0 {
			cfg.leveled[l] = vDel(cfg.leveled[l], w)
		}
	case 8:
		lg.ResetLevelWriter(l)
		delete(cfg.leveled, l)
	case 9:
		lg.ResetLevelWriters()
		cfg.leveled = map[Level][]int{}
	case 10:
		lg.ResetWriters()
		cfg = vCfg{normal: []int{vWStdout}, errw: []int{vWStderr}, leveled: map[Level][]int{}}
	}
	r := []Level{InfoLevel, ErrorLevel, DebugLevel, WarnLevel}[vChoose(4)]
	var want []int
	switch {
	case len(cfg.leveled[r]) > 0:
		want = cfg.leveled[r]
	case vErrorClass(r, 0, false):
		want = cfg.errw
	default:
		want = cfg.normal
	}
	lg.WriteThru(vCtx, r, vTime0(), 0, "m", nil)
	vCover("C03I:probed")
	cnt := func(xs []int, w int) int {
		n := 0
		for _, x := range xs {
			if x == w {
				n++
			}
		}
		return n
	}
	for w := 0; w < len(pool); w++ {
		vAssert(rec.count(w) == cnt(want, w), "C03: one operation from an arbitrary configuration gives the denoted configuration")
	}
	vAssert(vFileWrites(1) == cnt(want, vWStdout) && vFileWrites(2) == cnt(want, vWStderr), "C03: defaults only after a reset")
	for _, e := range rec.evs {
		if e.W == 3 {
			vAssert(e.HasLvl && e.Lvl == r, "C03: a destination that asks for the severity is told it immediately before the Write")
		}
	}
}
