package slog

import (
	"time"
	"context"
	"errors"

	"github.com/hedzr/is/states"
)

// ---- recording writers (DESIGN.md section 3) ----

type vEvent struct {
	W      int    // writer id
	P      string // payload copy
	Lvl    Level  // level last announced through SetLevel (recLS only)
	HasLvl bool
	Failed bool
}

type vRec struct {
	evs   []vEvent
	faults func(w int) bool // nil = never fail
}

func (r *vRec) count(w int) int {
	n := 0
	for _, e := range r.evs {
		if e.W == w {
			n++
		}
	}
	return n
}

var errVFault error = errors.New("injected write fault")

// vErrList is an error of a slice type (like go/scanner.ErrorList): comparing
// two such values with == panics, so the library must not compare errors.
type vErrList []string

func (e vErrList) Error() string { return "injected write fault (list)" }

// recW is a plain io.Writer.
type recW struct {
	id int
	r  *vRec
}

func (w *recW) Write(b []byte) (int, error) {
	vOut(string(b)) // observation for the engine-vs-native selftest
	ev := vEvent{W: w.id, P: string(b)}
	if w.r.faults != nil && w.r.faults(w.id) {
		ev.Failed = true
		w.r.evs = append(w.r.evs, ev)
		return 0, errVFault
	}
	w.r.evs = append(w.r.evs, ev)
	return len(b), nil
}

// recLW is a LogWriter (Write + Close).
type recLW struct {
	id int
	r  *vRec
}

func (w *recLW) Write(b []byte) (int, error) {
	vOut(string(b))
	ev := vEvent{W: w.id, P: string(b)}
	if w.r.faults != nil && w.r.faults(w.id) {
		ev.Failed = true
		w.r.evs = append(w.r.evs, ev)
		return 0, errVFault
	}
	w.r.evs = append(w.r.evs, ev)
	return len(b), nil
}
func (w *recLW) Close() error { return nil }

// recLS is a LogWriter that asks to be told the severity.
type recLS struct {
	id     int
	r      *vRec
	lvl    Level
	hasLvl bool
}

func (w *recLS) SetLevel(l Level) { w.lvl, w.hasLvl = l, true }
func (w *recLS) Write(b []byte) (int, error) {
	w.r.evs = append(w.r.evs, vEvent{W: w.id, P: string(b), Lvl: w.lvl, HasLvl: w.hasLvl})
	w.hasLvl = false
	return len(b), nil
}
func (w *recLS) Close() error { return nil }

// ---- process modes ----

// vProduction puts the package variables that depend on how the process was
// started into "production process" state, identically under the engine and
// in native replay.
func vProduction() {
	inTesting = false
	inBenching = false
	isDebugging = false
	// (isDebug is computed once at package init from the build and the DEBUG environment: false in a
	// production binary, under the engine's environment stubs and in the native replayer alike)
	states.Env().SetDebugMode(false)
	states.Env().SetTraceMode(false)
	flags = LstdFlags
	lvlCurrent = WarnLevel
}

// ---- the admission rule, transcribed from the statement of C01 ----

type vReg struct {
	v     Level
	treat Level
	has   bool
	errd  bool
}

// vTreat and vSpecEnabled are written with the fork-free operators so that
// the oracle adds no paths of its own.
func vTreat(r Level, regs []vReg) Level {
	t := int64(r)
	for k := len(regs) - 1; k >= 0; k-- {
		g := regs[k]
		t = vIte(vAnd(g.v == r, g.has), int64(g.treat), t)
	}
	t = vIte(vOr(r == OKLevel, r == SuccessLevel), int64(InfoLevel), t)
	t = vIte(r == FailLevel, int64(ErrorLevel), t)
	return Level(t)
}

func vSpecEnabled(L, r Level, debug bool, regs []vReg) bool {
	off := vOr(L == OffLevel, r == OffLevel)
	always := vOr(L == AlwaysLevel, r == AlwaysLevel)
	dbg := vAnd(debug, r == DebugLevel)
	return vAnd(vNot(off), vOr(always, vOr(dbg, L >= vTreat(r, regs))))
}

var vCtx = context.Background()

// vTime0 is a fixed explicit timestamp for WriteThru probes.
func vTime0() time.Time { return time.Unix(1700000000, 123456789).UTC() }
