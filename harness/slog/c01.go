package slog

import (
	"context"
	logslog "log/slog"

	"github.com/hedzr/is/states"
)

// vRegisterSome performs up to k RegisterLevel calls with symbolic value and
// symbolic presence/value of the treated-as option; returns what succeeded.
func vRegisterSome(k int, withErrDev bool) []vReg {
	var regs []vReg
	titles := []string{"vcl0", "vcl1", "vcl2"}
	for i := 0; i < k; i++ {
		v := Level(vInt())
		has := vBool()
		treat := Level(vInt())
		vAssume(treat >= 0 && treat < MaxLevel)
		var opts []RegOpt
		if has {
			opts = append(opts, RegWithTreatedAsLevel(treat))
		}
		errd := false
		if withErrDev {
			errd = vBool()
			if errd {
				opts = append(opts, RegWithPrintToErrorDevice(true))
			}
		}
		if err := RegisterLevel(v, titles[i], opts...); err == nil {
			regs = append(regs, vReg{v: v, treat: treat, has: has, errd: errd})
		}
	}
	return regs
}

// vDebugHistory runs a symbolic history that may switch process-wide debug
// mode on (as a side effect of SetLevel(Debug) on another logger) or set it
// explicitly; returns whether debug mode is on afterwards.
func vDebugHistory() bool {
	dbg := false
	if vBool() {
		other := New("other")
		l0 := Level(vInt())
		other.SetLevel(l0)
		if l0 == DebugLevel {
			dbg = true
		}
	}
	if vBool() {
		b := vBool()
		states.Env().SetDebugMode(b)
		dbg = b
	}
	return dbg
}

// VH_C01A: the admission kernel equals the rule of the statement, for all
// logger levels, severities, registrations and debug histories.
func VH_C01A() {
	vProduction()
	regs := vRegisterSome(vParam("regs", 1), false)
	dbg := vDebugHistory()
	L := Level(vInt())
	r := Level(vInt())
	lg := New("x").SetLevel(L)
	if L == DebugLevel {
		dbg = true
	}
	want := vSpecEnabled(L, r, dbg, regs)
	got := lg.Enabled(r)
	vCover("C01A:reached")
	if got {
		vCover("C01A:admitted")
	} else {
		vCover("C01A:refused")
	}
	vAssert(got == want, "C01A: Enabled(r) equals the admission rule")
	vAssert(lg.EnabledContext(context.TODO(), r) == want, "C01A: EnabledContext(r) equals the admission rule")
}

// vEntryPoint issues one record through public entry point e on lg (which is
// also the default logger); returns the severity it carries (ok=false when e
// is out of range). Verbose variants report OffLevel (must emit nothing).
const vNumEntryPoints = 61

// vEntryMsg is the message every entry point logs.
var vEntryMsg = "m"

func vEntryPoint(e int, lg *Entry, ctx context.Context, sev Level) (Level, bool) {
	m := vEntryMsg
	switch e {
	case 0:
		lg.Error(m)
		return ErrorLevel, true
	case 1:
		lg.Warn(m)
		return WarnLevel, true
	case 2:
		lg.Info(m)
		return InfoLevel, true
	case 3:
		lg.Debug(m)
		return DebugLevel, true
	case 4:
		lg.Trace(m)
		return TraceLevel, true
	case 5:
		lg.Print(m)
		return AlwaysLevel, true
	case 6:
		lg.OK(m)
		return OKLevel, true
	case 7:
		lg.Success(m)
		return SuccessLevel, true
	case 8:
		lg.Fail(m)
		return FailLevel, true
	case 9:
		lg.Println(m)
		return AlwaysLevel, true
	case 10:
		lg.Panic(m)
		return PanicLevel, true
	case 11:
		lg.Fatal(m)
		return FatalLevel, true
	case 12:
		lg.ErrorContext(ctx, m)
		return ErrorLevel, true
	case 13:
		lg.WarnContext(ctx, m)
		return WarnLevel, true
	case 14:
		lg.InfoContext(ctx, m)
		return InfoLevel, true
	case 15:
		lg.DebugContext(ctx, m)
		return DebugLevel, true
	case 16:
		lg.TraceContext(ctx, m)
		return TraceLevel, true
	case 17:
		lg.PrintContext(ctx, m)
		return AlwaysLevel, true
	case 18:
		lg.OKContext(ctx, m)
		return OKLevel, true
	case 19:
		lg.SuccessContext(ctx, m)
		return SuccessLevel, true
	case 20:
		lg.FailContext(ctx, m)
		return FailLevel, true
	case 21:
		lg.PrintlnContext(ctx, m)
		return AlwaysLevel, true
	case 22:
		lg.PanicContext(ctx, m)
		return PanicLevel, true
	case 23:
		lg.FatalContext(ctx, m)
		return FatalLevel, true
	case 24:
		// with every shape of the variadic arguments the entry point accepts
		switch vChoose(4) {
		case 0:
			lg.LogAttrs(ctx, sev, m)
		case 1:
			lg.LogAttrs(ctx, sev, m, Attrs{NewAttr("k", 1)})
		case 2:
			lg.LogAttrs(ctx, sev, m, NewAttr("k", 1))
		case 3:
			lg.LogAttrs(ctx, sev, m, "k", 1)
		}
		return sev, true
	case 25:
		switch vChoose(3) {
		case 0:
			lg.Logit(ctx, sev, m)
		case 1:
			lg.Logit(ctx, sev, m, Attrs{NewAttr("k", 1)})
		case 2:
			lg.Logit(ctx, sev, m, "k", 1)
		}
		return sev, true
	case 26:
		lg.Log(ctx, logslog.LevelDebug, m)
		return DebugLevel, true
	case 27:
		lg.Log(ctx, logslog.LevelInfo, m)
		return InfoLevel, true
	case 28:
		lg.Log(ctx, logslog.LevelWarn, m)
		return WarnLevel, true
	case 29:
		lg.Log(ctx, logslog.LevelError, m)
		return ErrorLevel, true
	case 30:
		_ = lg.Infof("%s", m)
		return InfoLevel, true
	case 31:
		_ = lg.Warnf("%s", m)
		return WarnLevel, true
	case 32:
		_ = lg.Errorf("%s", m)
		return ErrorLevel, true
	case 33:
		lg.Verbose(m)
		return OffLevel, true
	case 34:
		lg.VerboseContext(ctx, m)
		return OffLevel, true
	// package-level functions on the default logger
	case 35:
		Error(m)
		return ErrorLevel, true
	case 36:
		Warn(m)
		return WarnLevel, true
	case 37:
		Info(m)
		return InfoLevel, true
	case 38:
		Debug(m)
		return DebugLevel, true
	case 39:
		Trace(m)
		return TraceLevel, true
	case 40:
		Print(m)
		return AlwaysLevel, true
	case 41:
		OK(m)
		return OKLevel, true
	case 42:
		Success(m)
		return SuccessLevel, true
	case 43:
		Fail(m)
		return FailLevel, true
	case 44:
		Println(m)
		return AlwaysLevel, true
	case 45:
		Panic(m)
		return PanicLevel, true
	case 46:
		Fatal(m)
		return FatalLevel, true
	case 47:
		ErrorContext(ctx, m)
		return ErrorLevel, true
	case 48:
		WarnContext(ctx, m)
		return WarnLevel, true
	case 49:
		InfoContext(ctx, m)
		return InfoLevel, true
	case 50:
		DebugContext(ctx, m)
		return DebugLevel, true
	case 51:
		TraceContext(ctx, m)
		return TraceLevel, true
	case 52:
		PrintContext(ctx, m)
		return AlwaysLevel, true
	case 53:
		OKContext(ctx, m)
		return OKLevel, true
	case 54:
		SuccessContext(ctx, m)
		return SuccessLevel, true
	case 55:
		FailContext(ctx, m)
		return FailLevel, true
	case 56:
		PrintlnContext(ctx, m)
		return AlwaysLevel, true
	case 57:
		PanicContext(ctx, m)
		return PanicLevel, true
	case 58:
		FatalContext(ctx, m)
		return FatalLevel, true
	case 59:
		Verbose(m)
		return OffLevel, true
	case 60:
		VerboseContext(ctx, m)
		return OffLevel, true
	case 61:
		return -1, false
	}
	return 0, false
}

// vUngatedCtxVerb names the Context verbs that the known finding covers.
func vUngatedCtxVerb(e int) bool {
	switch e {
	case 17, 18, 19, 20, 21:
		return true
	}
	return false
}

// VH_C01B: every public entry point applies the same admission rule: a
// record reaches the destinations iff the rule admits its severity.
func VH_C01B() {
	vProduction()
	flags |= LnoInterrupt
	regs := vRegisterSome(vParam("regs", 0), false)
	dbg := vDebugHistory()
	L := Level(vInt())
	rec := &vRec{}
	lgi := New("x")
	lg := lgi.(*logimp).Entry
	lg.SetWriter(&recW{1, rec}).SetErrorWriter(&recW{2, rec}).SetLevel(L)
	if vBool() {
		lg.SetJSONMode(true)
	}
	if L == DebugLevel {
		dbg = true
	}
	SetDefault(lgi)
	e := vChoose(vNumEntryPoints)
	// severity for LogAttrs/Logit: every built-in level, the unregistered
	// values -1, 12, 13, and (regs > 0) the registered custom levels
	var sev Level
	if e == 24 || e == 25 {
		sev = Level(vChoose(15) - 1)
		if len(regs) > 0 && vBool() {
			sev = regs[0].v
		}
	}
	if vUngatedCtxVerb(e) {
		vKnown("C01-ctx-verbs-ungated")
	}
	r, ok := vEntryPoint(e, lg, context.Background(), sev)
	if !ok {
		return
	}
	want := vSpecEnabled(L, r, dbg, regs)
	if e == 33 || e == 34 || e == 59 || e == 60 {
		want = false // Verbose emits nothing in a default build
	}
	vCover("C01B:reached")
	got := len(rec.evs) > 0
	if got {
		vCover("C01B:emitted")
	}
	vAssert(got == want, "C01B: output iff admitted")
}
