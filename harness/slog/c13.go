package slog

import (
	"os"
	"strings"
)

// C13: failing destinations: bounded reaction, nothing lost elsewhere, no
// sticky state. Every Write attempt consults a fresh symbolic fault bit.

func VH_C13() {
	vProduction()
	os.Stdout = vFile(1)
	os.Stderr = vFile(2)
	defaultWriter = newDualWriter()
	rec := &vRec{}
	if vBool() {
		errVFault = vErrList{"injected"} // failing destinations report an error of an uncomparable type
	}
	faultsOn := true
	attempts, attemptLimit := 0, 1<<30
	rec.faults = func(w int) bool {
		// a cascade is cut at the first Write attempt beyond the bound
		attempts++
		vAssert(attempts <= attemptLimit, "C13: Write attempts for one call are bounded by |selected| + |warning set| (no cascade)")
		return faultsOn && vBool()
	}
	lg := New("x").(*logimp).Entry
	lg.SetColorMode(false)
	nN := vChoose(2) + 1
	nE := vChoose(2) + 1
	var normal, errw, leveled []int
	lg.SetWriter(&recW{0, rec})
	normal = append(normal, 0)
	if nN == 2 {
		lg.AddWriter(&recLW{1, rec})
		normal = append(normal, 1)
	}
	lg.SetErrorWriter(&recW{2, rec})
	errw = append(errw, 2)
	if nE == 2 {
		lg.AddErrorWriter(&recW{3, rec})
		errw = append(errw, 3)
	}
	lvlWriterFor := Level(-1)
	switch vChoose(3) {
	case 1:
		lvlWriterFor = InfoLevel
	case 2:
		lvlWriterFor = WarnLevel
	}
	if lvlWriterFor >= 0 {
		lg.AddLevelWriter(lvlWriterFor, &recW{4, rec})
		leveled = []int{4}
	}
	L := []Level{ErrorLevel, WarnLevel, InfoLevel, DebugLevel, OffLevel, AlwaysLevel}[vChoose(6)]
	lg.SetLevel(L)
	dbg := L == DebugLevel
	sevs := []Level{ErrorLevel, WarnLevel, InfoLevel, DebugLevel, FailLevel, OKLevel, AlwaysLevel}
	selected := func(r Level) []int {
		if r == lvlWriterFor {
			return leveled
		}
		if vErrorClass(r, 0, false) {
			return errw
		}
		return normal
	}
	calls := vParam("calls", 2)
	for c := 0; c <= calls; c++ {
		if c == calls {
			faultsOn = false // recovery: the destinations work again
		}
		r := sevs[vChoose(len(sevs))]
		n0 := len(rec.evs)
		attempts = 0
		attemptLimit = len(selected(r)) + len(selected(WarnLevel))
		msg := "m"
		if r == AlwaysLevel {
			// Print-severity records: also the blank ones (rendered as one empty line, one Write)
			msg = []string{"m", "", "\n\n"}[vChoose(3)]
		}
		lg.Logit(vCtx, r, msg, "k", 1) // must return normally: a panic is reported as a violation
		attemptLimit = 1 << 30
		evs := rec.evs[n0:]
		admitted := vSpecEnabled(L, r, dbg, nil)
		if !admitted {
			vAssert(len(evs) == 0, "C13: a record that is not admitted causes no Write")
			continue
		}
		S := selected(r)
		vAssert(len(evs) >= len(S), "C13: every selected destination is attempted even when a sibling fails")
		anyFailed := false
		for k, w := range S {
			vAssert(evs[k].W == w, "C13: the selected destinations are attempted once each, in order")
			vAssert(evs[k].P == evs[0].P, "C13: every selected destination gets the identical payload")
			if evs[k].Failed {
				anyFailed = true
			}
		}
		p := evs[0].P
		if msg == "m" {
			vAssert(len(p) > 0 && p[len(p)-1] == '\n' && strings.Contains(p, `msg="m"`), "C13: the payload is the complete record")
		} else {
			vAssert(p == "\n", "C13: a blank Print-severity record is one newline")
		}
		rest := evs[len(S):]
		warnAdmitted := vSpecEnabled(L, WarnLevel, dbg, nil)
		if anyFailed && r != WarnLevel && warnAdmitted {
			vCover("C13:diagnostic")
			W := selected(WarnLevel)
			vAssert(len(rest) == len(W), "C13: exactly one diagnostic record, sent to the warning destinations, and no cascade")
			for k, w := range W {
				vAssert(rest[k].W == w, "C13: the diagnostic goes to the warning destinations")
				vAssert(strings.Contains(rest[k].P, "slog print log failed") && strings.Contains(rest[k].P, `level="warning"`),
					"C13: the diagnostic is a warning record")
			}
		} else {
			vAssert(len(rest) == 0, "C13: no diagnostic without a failure, for a failing warning, or when warnings are not admitted")
		}
		if c == calls {
			vCover("C13:recovered")
			for _, e := range evs {
				vAssert(!e.Failed, "C13: no sticky state after the destination works again")
			}
		}
	}
}
