package slog

import (
	"context"
	"strconv"
	"strings"
)

// C07: attribute assembly: sources, precedence, uniqueness, order.

type vKV struct {
	k string
	v int
}

// vRefMerge is the reference merge of the statement: last occurrence of each
// key wins, ascending key order.
func vRefMerge(src []vKV) []vKV {
	var out []vKV
	for _, e := range src {
		found := false
		for i := range out {
			if out[i].k == e.k {
				out[i].v = e.v
				found = true
			}
		}
		if !found {
			out = append(out, e)
		}
	}
	for i := 1; i < len(out); i++ {
		for j := i; j > 0 && out[j].k < out[j-1].k; j-- {
			out[j], out[j-1] = out[j-1], out[j]
		}
	}
	return out
}

// vParsePairs parses "k=1 k2=2" (integer values) after the msg pair of a
// logfmt line.
func vParsePairs(line string) (out []vKV, ok bool) {
	i := strings.Index(line, `msg="m"`)
	if i < 0 || !strings.HasSuffix(line, "\n") {
		return nil, false
	}
	rest := strings.TrimSuffix(line[i+len(`msg="m"`):], "\n")
	for _, f := range strings.Fields(rest) {
		k, v, has := strings.Cut(f, "=")
		if !has {
			return nil, false
		}
		n, err := strconv.Atoi(v)
		if err != nil {
			return nil, false
		}
		out = append(out, vKV{k, n})
	}
	return out, true
}

type vCtxKey struct{ name string }

func (k vCtxKey) String() string { return k.name }

func vSameKVs(a, b []vKV) bool {
	if len(a) != len(b) {
		return false
	}
	for i := range a {
		if a[i] != b[i] {
			return false
		}
	}
	return true
}

// vCK identifies a registered context key: its printed name and whether it is the Stringer or the plain string.
type vCK struct {
	name string
	str  bool
}

func VH_C07() {
	vProduction()
	flags = LstdFlags &^ (Lcaller | LattrsR)
	inherit := vBool()
	if inherit {
		flags |= LattrsR
	}
	if vParam("lattrs", 0) == 1 && vBool() {
		flags &^= Lattrs // an unrelated bit: inheritance depends on LattrsR alone
	}
	keys := []string{"a", "b", "c"}
	tag := 0
	next := func() int { tag++; return tag }
	rec := &vRec{}
	// logger chain
	depth := vChoose(vParam("chain", 2)) + 1
	var chain []*Entry
	var chainAttrs [][]vKV
	root := New("r").(*logimp).Entry
	root.SetColorMode(false).SetLevel(InfoLevel)
	useJSON := vParam("json", 0) == 1 && vBool()
	if useJSON {
		root.SetJSONMode(true) // children inherit the format at creation
	}
	// optionally every logger of the chain is first given one and the same
	// prepared attribute set (with spare capacity), as WithAttrs1/SetAttrs1 allow
	var prepared Attrs
	sharedTag := 0
	if vParam("shared", 0) == 1 {
		sharedTag = next()
		prepared = make(Attrs, 1, 4)
		prepared[0] = NewAttr("s", sharedTag)
	}
	cur := root
	for d := 0; d < depth; d++ {
		if d > 0 {
			cur = cur.New("c" + strconv.Itoa(d))
		}
		var own []vKV
		if prepared != nil {
			cur.SetAttrs1(prepared)
			own = append(own, vKV{"s", sharedTag})
		}
		for n := vChoose(vParam("own", 2) + 1); n > 0; n-- {
			e := vKV{keys[vChoose(3)], next()}
			own = append(own, e)
			cur.SetAttrs(NewAttr(e.k, e.v))
		}
		chain = append(chain, cur)
		chainAttrs = append(chainAttrs, own)
	}
	lg := chain[depth-1]
	lg.SetWriter(&recW{0, rec})
	// context keys
	var ctx context.Context = context.Background()
	var fromCtx []vKV
	var ckRegs []vCK
	ckVals := map[vCK]int{}
	nilCtx := false
	for j := 0; j < vParam("ctxkeys", 1); j++ {
		name := keys[vChoose(3)]
		var key any = name
		isStr := vBool()
		if isStr {
			key = vCtxKey{name}
		}
		lg.SetContextKeys(key)
		ck := vCK{name, isStr}
		ckRegs = append(ckRegs, ck)
		if vBool() {
			v := next()
			ctx = context.WithValue(ctx, key, v)
			ckVals[ck] = v
		}
	}
	// every registered key, in registration order, contributes the value the context holds for it
	// at the time of the call (a key registered twice contributes twice)
	for _, ck := range ckRegs {
		if v, ok := ckVals[ck]; ok {
			fromCtx = append(fromCtx, vKV{ck.name, v})
		}
	}
	if len(fromCtx) == 0 && vParam("ctxkeys", 1) > 0 && vBool() {
		nilCtx = true
	}
	// call-site attributes
	var args []any
	var site []vKV
	for n := vChoose(vParam("site", 2) + 1); n > 0; n-- {
		e := vKV{keys[vChoose(3)], next()}
		site = append(site, e)
		if vBool() {
			args = append(args, e.k, e.v)
		} else {
			args = append(args, NewAttr(e.k, e.v))
		}
	}
	if nilCtx {
		lg.InfoContext(nil, "m", args...) //nolint:staticcheck
	} else {
		lg.InfoContext(ctx, "m", args...)
	}
	vAssert(len(rec.evs) == 1, "C07: one record")
	var got []vKV
	var ok bool
	if useJSON {
		p := rec.evs[0].P
		doc, okj := vJSONParse(strings.TrimSuffix(p, "\n"))
		ok = okj
		for i, k := range doc.keys {
			if k == "time" || k == "logger" || k == "level" || k == "msg" {
				continue
			}
			n, err := strconv.Atoi(doc.vals[i].str)
			ok = ok && err == nil
			got = append(got, vKV{k, n})
		}
	} else {
		got, ok = vParsePairs(rec.evs[0].P)
	}
	vAssert(ok, "C07: the record's attributes parse as key=value pairs")
	// reference
	var src []vKV
	src = append(src, fromCtx...)
	ownEmpty := len(chainAttrs[depth-1]) == 0
	if inherit {
		for d := 0; d < depth-1; d++ {
			src = append(src, chainAttrs[d]...)
		}
	}
	src = append(src, chainAttrs[depth-1]...)
	src = append(src, site...)
	if inherit && ownEmpty && depth > 1 {
		vKnown("C07-logger-without-own-attributes-inherits-nothing")
	}
	vCover("C07:compared")
	vAssert(vSameKVs(got, vRefMerge(src)), "C07: attributes = context, ancestors (iff inherit), own, call site; last wins; ascending keys")
}

// VH_C07G: the same uniqueness and order rule inside a group.
func VH_C07G() {
	vProduction()
	flags = LstdFlags &^ (Lcaller | LattrsR)
	keys := []string{"a", "b", "c"}
	rec := &vRec{}
	lg := New("r").(*logimp).Entry
	lg.SetColorMode(false).SetLevel(InfoLevel).SetWriter(&recW{0, rec})
	var members []any
	var src []vKV
	for n := vChoose(vParam("members", 3)) + 1; n > 0; n-- {
		e := vKV{keys[vChoose(3)], len(src) + 1}
		src = append(src, e)
		members = append(members, e.k, e.v)
	}
	lg.Info("m", Group("g", members...))
	got, ok := vParsePairs(rec.evs[0].P)
	vAssert(ok, "C07: group members parse as key=value pairs")
	want := vRefMerge(src)
	for i := range want {
		want[i].k = "g." + want[i].k
	}
	vCover("C07G:compared")
	vAssert(vSameKVs(got, want), "C07: inside a group each key once, last wins, ascending order")
}

// VH_C07L: long call-site lists (13..16 attributes over two keys) through the
// real slices.SortFunc (pdqsort above 12 elements).
func VH_C07L() {
	vProduction()
	flags = LstdFlags &^ (Lcaller | LattrsR)
	keys := []string{"a", "b"}
	rec := &vRec{}
	lg := New("r").(*logimp).Entry
	lg.SetColorMode(false).SetLevel(InfoLevel).SetWriter(&recW{0, rec})
	n := 13 + vChoose(vParam("extra", 2))
	var args []any
	var src []vKV
	for i := 0; i < n; i++ {
		e := vKV{keys[vChoose(2)], i + 1}
		src = append(src, e)
		args = append(args, NewAttr(e.k, e.v))
	}
	lg.Info("m", args...)
	got, ok := vParsePairs(rec.evs[0].P)
	vAssert(ok, "C07: attributes parse as key=value pairs")
	vKnown("C07-unstable-sort-loses-last-wins-above-12")
	vCover("C07L:compared")
	vAssert(vSameKVs(got, vRefMerge(src)), "C07: last occurrence wins for long attribute lists")
	vKnown("")
}
