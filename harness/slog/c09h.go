package slog

import (
	"errors"
	"path/filepath"
	"runtime"
	"strconv"
	"strings"
	"time"
)

// VH_C09H: history independence against REAL histories. The havoc form
// (VH_C09) makes every known field of the recycled PrintCtx arbitrary; this
// form catches state that leaks through anything else (fields added later,
// values cached next to the formatting context, the attribute pool): a probe
// record B is written on a pristine process, then again after a history
// record A (any of a list of shapes exercising every rendering path, on any
// format, from the same or another call site) and an optional change of the
// global flags applied before both runs of B.
// The two payloads of B must be identical.

func vPC1() uintptr { return getpc(1, 0) }
func vPC2() uintptr { return getpc(1, 0) }

type vShape struct {
	sev   Level
	msg   string
	attrs func() Attrs
	pc    int // 0: no caller, 1/2: call site
}

const vC09NoColor = Level(41)

func vShapes() []vShape {
	return []vShape{
		{InfoLevel, "m", func() Attrs { return nil }, 0},
		{ErrorLevel, "m\nn", func() Attrs { return Attrs{NewAttr("k", 1)} }, 1},
		{vC09NoColor, "m", func() Attrs { return Attrs{Group("g", "x", 1)} }, 1},
		{Level(77), "m\nn\n", func() Attrs { return Attrs{NewAttr("a", 1), NewAttr("z", errors.New("boom"))} }, 2},
		{InfoLevel, "m", func() Attrs { return Attrs{NewAttr("e", errors.New("boom")), NewAttr("k", "v")} }, 1},
		{WarnLevel, "m", func() Attrs { return Attrs{NewAttr("a", 1), NewAttr("time", vTime0())} }, 0},
		{InfoLevel, "m", func() Attrs { return Attrs{NewAttr("z", vC14MakeErr())} }, 1},
		{ErrorLevel, "m", func() Attrs { return Attrs{NewAttr("error", vC14MakeErr()), NewAttr("zz", 2)} }, 2},
		{DebugLevel, "", func() Attrs { return Attrs{NewAttr("k", 1)} }, 1},
		{OKLevel, "m", func() Attrs { return Attrs{Group("g", "x", 1, "y", Group("h", "z", 2)), NewAttr("k", 1)} }, 1},
		{InfoLevel, "a message that is longer than the minimal width of the first line", func() Attrs { return Attrs{NewAttr("k", []int{1, 2})} }, 2},
		{FailLevel, "m", func() Attrs { return Attrs{NewAttr("d", 1500 * time.Millisecond), NewAttr("t", vTime0())} }, 1},
		// a message and a value that outgrow the initial capacity of the formatting buffer
		{InfoLevel, strings.Repeat("long message ", 60), func() Attrs { return Attrs{NewAttr("big", strings.Repeat("v", 700))} }, 0},
	}
}

func vC09Logger(name string, rec *vRec, format int) *Entry {
	lg := New(name).(*logimp).Entry
	lg.SetWriter(&recW{0, rec}).SetErrorWriter(&recW{0, rec}).SetLevel(TraceLevel)
	switch format {
	case 1:
		lg.SetJSONMode(true)
	case 2:
		lg.SetColorMode(false)
	case 3:
		lg.SetTimeFormat(time.Kitchen)
	case 4:
		lg.SetColorMode(false).SetUTCMode(true)
	}
	return lg
}

func vC09Emit(lg *Entry, s vShape) {
	var pc uintptr
	switch s.pc {
	case 1:
		pc = vPC1()
	case 2:
		pc = vPC2()
	}
	lg.WriteThru(vCtx, s.sev, vTime0(), pc, s.msg, s.attrs())
}

func VH_C09H() {
	if vParam("testmode", 0) == 1 {
		// the error dump after the record is performed in test/debug processes only
		vProduction()
		inTesting = true
	} else {
		vProduction()
	}
	_ = RegisterLevel(vC09NoColor, "cnorm")
	// protect the directory the call sites live in (wherever the tree under test is)
	file, _ := runtime.FuncForPC(vPC1()).FileLine(vPC1())
	AddKnownPathMapping(filepath.Dir(file), "~r")
	shapes := vShapes()
	rec := &vRec{}
	fa, fb := vChoose(vParam("fa", 4)), vChoose(vParam("fb", 3))
	A := shapes[vChoose(len(shapes))]
	B := shapes[vChoose(len(shapes))]
	// the global flags are an input of a record: B runs under flagsB both
	// times, the history record under flags that may differ in one bit
	flagsB := LstdFlags
	if vBool() {
		flagsB &^= Lcaller
	}
	flagsA := flagsB ^ []Flags{0, Lprivacypath, Lcaller}[vChoose(3)]
	setFlags := func() { flags = flagsB }
	saved := flagsA
	// B on the pristine process
	setFlags()
	// (on a logger of its own and a formatting context that is then discarded,
	// so that the reference run is not itself history for what follows)
	vC09Emit(vC09Logger("b", rec, fb), B)
	vAssert(len(rec.evs) == 1, "C09: the probe writes one record")
	ref := rec.evs[0].P
	_ = poolPrintCtx.Get()
	_ = poolPrintCtx.Get()
	poolPrintCtx.Put(newPrintCtx())
	lgB := vC09Logger("b", rec, fb)
	// history: A under the original flags, then the flag change, then B again
	flags = saved
	lgA := lgB
	if vBool() {
		lgA = vC09Logger("a", rec, fa)
	}
	vC09Emit(lgA, A)
	setFlags()
	n0 := len(rec.evs)
	vC09Emit(lgB, B)
	vAssert(len(rec.evs) == n0+1, "C09: the probe writes one record")
	vCover("C09H:compared")
	if B.sev == vC09NoColor || B.sev == Level(77) {
		vKnown("C09-stale-colour-for-levels-without-colour")
	}
	vAssert(rec.evs[n0].P == ref, "C09: the record's bytes do not depend on the records written before it")
	vKnown("")
}

// VH_C09E: real histories through the ordinary entry points (Info/Warn/Error
// with call-site arguments, bound logger attributes, the pooled attribute
// slice of logContext). The loggers use a layout without time verbs, so the
// timestamp field is a constant and payloads are comparable byte for byte
// without explicit timestamps.
func vC09ELogger(name string, rec *vRec, cfg int) *Entry {
	lg := New(name).(*logimp).Entry
	lg.SetWriter(&recW{0, rec}).SetErrorWriter(&recW{0, rec}).SetLevel(TraceLevel).SetTimeFormat("@")
	switch cfg % 3 {
	case 1:
		lg.SetJSONMode(true)
	case 2:
		lg.SetColorMode(false)
	}
	if cfg/3 == 1 {
		lg.SetAttrs(NewAttr("region", "eu"), NewAttr("tenant", "acme"))
	}
	return lg
}

func vC09EEmit(lg *Entry, shape int) {
	switch shape {
	case 0:
		lg.Info("m")
	case 1:
		lg.Info("m", "user", "u", "id", 7)
	case 2:
		lg.Warn("w", Group("g", "x", 1))
	case 3:
		lg.Error("e", "err", errors.New("boom"))
	case 4:
		lg.Info("m\nn", "k", 1)
	}
}

func VH_C09E() {
	vProduction()
	flags = LstdFlags &^ Lcaller
	rec := &vRec{}
	cb, sb := vChoose(6), vChoose(5)
	hist := vChoose(3) // history on the probe's logger, on another logger, or on a child of the probe's logger
	if hist == 2 {
		flags |= LattrsR // children print their ancestors' attributes too
	}
	vC09EEmit(vC09ELogger("b", rec, cb), sb)
	vAssert(len(rec.evs) == 1, "C09: the probe writes one record")
	ref := rec.evs[0].P
	_ = poolPrintCtx.Get()
	_ = poolPrintCtx.Get()
	poolPrintCtx.Put(newPrintCtx())
	lgB := vC09ELogger("b", rec, cb)
	lgA := lgB
	switch hist {
	case 1:
		lgA = vC09ELogger("a", rec, vChoose(6))
	case 2:
		// a child binding a key its parent binds too
		lgA = lgB.New("kid").SetWriter(&recW{0, rec}).SetErrorWriter(&recW{0, rec}).SetAttrs(NewAttr("region", "kid"))
	}
	vC09EEmit(lgA, vChoose(5))
	if vBool() {
		vC09EEmit(vC09ELogger("c", rec, 2), 1) // a third logger recycling the pools
	}
	n0 := len(rec.evs)
	vC09EEmit(lgB, sb)
	vAssert(len(rec.evs) == n0+1, "C09: the probe writes one record")
	vCover("C09E:compared")
	vAssert(rec.evs[n0].P == ref, "C09: the record's bytes do not depend on the records written before it (entry points)")
}

// VH_C09X: history independence across executions. Every path of the harness
// is executed by the engine in a fresh interpreter with pristine package
// state - a separate process as far as the library is concerned. The probe B
// is written after no history at all or after a history record A (as in H),
// and its payload is handed to vSame under a key naming B's own inputs
// (shape, logger configuration, global flags): all executions must observe
// the same payload for the same key. Unlike H there is no reference run in
// the same process, so state cached anywhere - package variables, memo
// tables keyed by file or call site - cannot be warmed by the check itself.
func VH_C09X() {
	vProduction()
	if vParam("testmode", 0) == 1 {
		inTesting = true
	}
	_ = RegisterLevel(vC09NoColor, "cnorm")
	file, _ := runtime.FuncForPC(vPC1()).FileLine(vPC1())
	AddKnownPathMapping(filepath.Dir(file), "~r")
	shapes := vShapes()
	rec := &vRec{}
	fb := vChoose(vParam("fb", 3))
	sb := vChoose(len(shapes))
	flagsB := LstdFlags
	fsel := vChoose(2)
	if fsel == 1 {
		flagsB &^= Lcaller
	}
	lgB := vC09Logger("b", rec, fb)
	if h := vChoose(len(shapes) + 1); h > 0 {
		// a history record, on the probe's logger or another one, under flags that may differ in one bit
		flags = flagsB ^ []Flags{0, Lprivacypath, Lcaller}[vChoose(3)]
		lgA := lgB
		if vBool() {
			lgA = vC09Logger("a", rec, vChoose(vParam("fa", 4)))
		}
		vC09Emit(lgA, shapes[h-1])
	}
	flags = flagsB
	n0 := len(rec.evs)
	vC09Emit(lgB, shapes[sb])
	vAssert(len(rec.evs) == n0+1, "C09: the probe writes one record")
	vCover("C09X:observed")
	if s := shapes[sb].sev; s == vC09NoColor || s == Level(77) {
		vKnown("C09-stale-colour-for-levels-without-colour")
	}
	vSame("B/"+strconv.Itoa(fb)+"/"+strconv.Itoa(sb)+"/"+strconv.Itoa(fsel)+"/"+strconv.Itoa(vParam("testmode", 0)), rec.evs[n0].P)
	vKnown("")
}
