package slog

import (
	"path/filepath"
	"runtime"
	"strings"
)

// C18: path hardening never lets a protected directory prefix through.

// vPathString returns a symbolic string of length <= n over the alphabet
// { '/', '.', 'a', 'b', '~' }.
func vPathString(n int, alphabet string) string {
	s := vString(n)
	for i := 0; i < len(s); i++ {
		ok := false
		for j := 0; j < len(alphabet); j++ {
			ok = vOr(ok, s[i] == alphabet[j])
		}
		vAssume(ok)
	}
	return s
}

func vUnder(p, d string) bool {
	if strings.HasSuffix(d, "/") {
		return strings.HasPrefix(p, d)
	}
	return p == d || strings.HasPrefix(p, d+"/")
}

func VH_C18() {
	vProduction()
	h := vParam("dir", 2)
	plen := vParam("path", 4)
	// protected directories: home (symbolic name), the working directory
	// (the engine's and the replayer's cwd is /tmp), plus j registered mappings
	homeDir = "/" + vPathString(h, "ab")
	vAssume(len(homeDir) > 1)
	currDir = "/tmp"
	knownPathMap = map[string]string{homeDir: "~", currDir: "."}
	useRegexp := vParam("regexp", 0) == 1
	if !useRegexp {
		knownPathRegexpMap = nil // symbolic paths through arbitrary regexp mappings are outside the claim
	} // else: the library's built-in mapping /Volumes/[^/]+/ -> ~ stays registered
	type mp struct{ dir, repl string }
	prot := []mp{{homeDir, "~"}, {currDir, "."}}
	for j := 0; j < vParam("maps", 1); j++ {
		if vBool() {
			d := "/" + vPathString(h, "ab")
			vAssume(len(d) > 1 && d != homeDir && d != currDir)
			if vParam("relmaps", 0) == 1 && vBool() {
				d = d[1:] // a mapping whose prefix is not an absolute path (module paths, foreign drive letters)
			}
			if vBool() {
				d += "/" // a mapping may be registered with a trailing slash
			}
			repl := []string{"~w", "<a-long-replacement>"}[vChoose(2)] // the replacement may be longer than the prefix
			AddKnownPathMapping(d, repl)
			prot = append(prot, mp{d, repl})
			if vBool() {
				RemoveKnownPathMapping(d)
				prot = prot[:len(prot)-1]
			}
		}
	}
	privacy := vBool()
	flags = LstdFlags &^ (Lprivacypath | Lprivacypathregexp)
	if privacy {
		flags |= Lprivacypath
	}
	if vBool() {
		flags |= Lprivacypathregexp
	}
	var in string
	nIn := 3
	if useRegexp {
		nIn = 4
	}
	switch vChoose(nIn) {
	case 3:
		// a path under a protected directory that the regexp mapping matches too
		in = prot[vChoose(len(prot))].dir + "/Volumes/" + vPathString(1, "ab") + "/" + vPathString(1, "ab/")
	case 0:
		in = vPathString(plen, "/.ab~")
	case 1:
		in = "/" + vPathString(plen-1, "/.ab~")
	case 2:
		in = "/Volumes/" + vPathString(plen-2, "/ab")
	}
	vPermuteMaps(true)
	out := Safety(in) // any panic is reported as a violation
	vPermuteMaps(false)
	vCover("C18:returned")
	under := false
	for _, m := range prot {
		if vUnder(in, m.dir) {
			under = true
			if privacy {
				vCover("C18:protected")
				vAssert(!strings.HasPrefix(out, m.dir), "C18: a path under a protected directory is never reported with that prefix")
			}
		}
	}
	if !under {
		prefixOnly := false // the input merely starts with the bytes of a mapping (e.g. /ax for /a)
		for _, m := range prot {
			if strings.HasPrefix(in, m.dir) {
				prefixOnly = true
			}
		}
		if prefixOnly {
			vKnown("C18-bytewise-prefix-rewrites-foreign-paths")
		}
		vCover("C18:outside")
		if out != in {
			isVol := strings.HasPrefix(in, "/Volumes/") && privacy
			if !isVol {
				vAssert(!filepath.IsAbs(out), "C18: a path outside all mappings is unchanged or becomes relative")
				vAssert(len(out) < len(in), "C18: the relative form is shorter")
				vAssert(filepath.Join("/tmp", out) == filepath.Clean(in), "C18: the relative form denotes the same file")
			}
		}
		vKnown("")
	}
}

// VH_C18R: the caller field of a record is hardened whatever the other
// formatting flags are. A record is written from a call site whose directory
// is registered as protected; privacy hardening and the caller field are on,
// every other flag bit is arbitrary; the payload must not contain the
// protected directory.
func VH_C18R() {
	vProduction()
	file, _ := runtime.FuncForPC(vPC1()).FileLine(vPC1())
	dir := filepath.Dir(file)
	AddKnownPathMapping(dir, "~r")
	rec := &vRec{}
	lg := vC09Logger("x", rec, vChoose(4))
	// any combination of the other flag bits (each print-related bit on or off)
	others := []Flags{Ldate, Ltime, Lmicroseconds, LlocalTime, Lattrs, LattrsR, Llineno, Lcallerpackagename, Lprivacypathregexp, LsmartJSONMode}
	f := Lcaller | Lprivacypath
	for _, b := range others {
		if vBool() {
			f |= b
		}
	}
	flags = f
	lg.WriteThru(vCtx, InfoLevel, vTime0(), vPC1(), "m", Attrs{NewAttr("k", 1)})
	vAssert(len(rec.evs) == 1, "C18: one record")
	vCover("C18R:written")
	vAssert(!strings.Contains(rec.evs[0].P, dir), "C18: the caller field of a record never shows a protected directory")
	vAssert(strings.Contains(rec.evs[0].P, "zz_verif_c09h.go"), "C18: the caller field names the call site's file")
}
