package slog

import (
	"errors"
	"os"
	"time"

	"github.com/hedzr/is/states"
)

// C02: exactly-once delivery of one whole Write per admitted call, for any
// arguments.

type vStruct struct {
	A int
	B string
}

type vStringerT struct{ s string }

func (v vStringerT) String() string { return v.s }

const vNumArgKinds = 16

// vArg builds one element of an argument list; the kind is chosen by the
// solver, scalar contents are symbolic where they influence control flow.
func vArg(depth int) any {
	switch vChoose(vNumArgKinds) {
	case 0:
		return vString(1)
	case 1:
		return 42
	case 2:
		return vBool()
	case 3:
		return nil
	case 4:
		return errors.New("e")
	case 5:
		return []byte(vString(1))
	case 6:
		return vStruct{1, "x"}
	case 7:
		return NewAttr(vString(1), 7)
	case 8:
		if vBool() {
			return Attrs{}
		}
		return Attrs{NewAttr("p", 1)}
	case 9:
		return []Attr{NewAttr("q", "v")}
	case 10:
		if depth <= 0 {
			return Group("g")
		}
		n := vChoose(vParam("gmembers", 2) + 1)
		var as []any
		for i := 0; i < n; i++ {
			as = append(as, vArg(depth-1))
		}
		return Group(vString(1), as...)
	case 11:
		var a Attr
		return a
	case 12:
		return 1500 * time.Millisecond
	case 13:
		return vStringerT{"s"}
	case 14:
		return (*int)(nil) // a typed nil pointer of a type without methods
	case 15:
		x := 7
		return &x
	}
	return nil
}

func VH_C02() {
	vProduction()
	os.Stdout = vFile(1)
	os.Stderr = vFile(2)
	defaultWriter = newDualWriter()
	flags = LstdFlags | LnoInterrupt
	if vParam("symflags", 0) == 1 {
		flags = Flags(vInt()) | LnoInterrupt
		knownPathRegexpMap = nil
	}
	if vParam("testmode", 0) == 1 {
		inTesting = true // a test process: error values are dumped after the record, in the same single payload
	}
	rec := &vRec{}
	lg := New("x").(*logimp).Entry
	lg.SetWriter(&recW{0, rec}).AddWriter(&recLW{1, rec}).SetErrorWriter(&recW{2, rec})
	const hasLvlW = true
	lg.AddLevelWriter(InfoLevel, &recW{3, rec})
	switch vChoose(3) {
	case 1:
		lg.SetJSONMode(true)
	case 2:
		lg.SetColorMode(false)
	}
	// gating is C01's subject: three logger levels suffice to reach both
	// outcomes for every severity
	symflags := vParam("symflags", 0) == 1
	L := TraceLevel
	if !symflags {
		L = []Level{TraceLevel, WarnLevel, OffLevel}[vChoose(3)]
	}
	lg.SetLevel(L)
	dbg := false
	states.Env().SetDebugMode(false)
	m := vChoose(vParam("args", 2) + 1)
	// the message is symbolic when there are no further arguments (the two
	// dimensions are independent in the code); otherwise fixed
	msg := "m"
	if m == 0 {
		msg = vString(vParam("msg", 1))
	}
	var args []any
	for i := 0; i < m; i++ {
		args = append(args, vArg(vParam("depth", 1)))
	}
	verb := 2
	switch {
	case symflags:
		// all flag combinations: the flags are independent of verb and arguments
		verb = []int{2, 0}[vChoose(2)]
	case m >= 2:
		verb = []int{0, 2, 9}[vChoose(3)]
	default:
		verb = vChoose(11)
	}
	var r Level
	switch verb {
	case 0:
		r = ErrorLevel
		lg.Error(msg, args...)
	case 1:
		r = WarnLevel
		lg.Warn(msg, args...)
	case 2:
		r = InfoLevel
		lg.Info(msg, args...)
	case 3:
		r = DebugLevel
		lg.Debug(msg, args...)
	case 4:
		r = TraceLevel
		lg.Trace(msg, args...)
	case 5:
		r = AlwaysLevel
		lg.Print(msg, args...)
	case 6:
		r = OKLevel
		lg.OK(msg, args...)
	case 7:
		r = SuccessLevel
		lg.Success(msg, args...)
	case 8:
		r = FailLevel
		lg.Fail(msg, args...)
	case 9:
		// Println: the message is the first argument, whatever its kind
		r = AlwaysLevel
		if len(args) > 0 {
			if _, isStr := args[0].(string); !isStr {
				vKnown("C02-println-first-argument-not-a-string")
			}
			if s0, isStr := args[0].(string); isStr {
				msg = s0
			} else {
				msg = "?" // the text of a non-string first argument is not prescribed; it is not blank
			}
		} else {
			msg = ""
		}
		lg.Println(args...)
	case 10:
		r = PanicLevel // no-interrupt flag set: must write and return
		lg.Panic(msg, args...)
	}
	vKnown("")
	vCover("C02:returned")
	admitted := vSpecEnabled(L, r, dbg, nil)
	var sel []int
	switch {
	case r == InfoLevel && hasLvlW:
		sel = []int{3}
	case vErrorClass(r, 0, false):
		sel = []int{2}
	default:
		sel = []int{0, 1}
	}
	if !admitted {
		vAssert(len(rec.evs) == 0 && vFileWrites(1) == 0 && vFileWrites(2) == 0, "C02: a call that is not admitted writes nothing anywhere")
		return
	}
	vCover("C02:admitted")
	vAssert(len(rec.evs) == len(sel), "C02: exactly one Write per selected destination and none elsewhere")
	for k, w := range sel {
		vAssert(rec.evs[k].W == w, "C02: the selected destinations each get the record")
		p := rec.evs[k].P
		vAssert(len(p) > 0 && p[len(p)-1] == '\n', "C02: the payload ends with a newline")
	}
	vAssert(vFileWrites(1) == 0 && vFileWrites(2) == 0, "C02: the package defaults receive nothing from a configured logger")
	if r == AlwaysLevel {
		blank := true
		for i := 0; i < len(msg); i++ {
			c := msg[i]
			blank = vAnd(blank, vOr(vOr(c == ' ', c == '\t'), vOr(c == '\r', c == '\n')))
		}
		if blank {
			vCover("C02:blank")
			vAssert(rec.evs[0].P == "\n", "C02: a blank Print/Println is exactly one newline byte")
		}
	}
}
