package slog

import (
	"github.com/hedzr/is/term/color"
)

// C17: level names and the level registry.

type vTables struct {
	all    []Level
	l2s    map[Level]string
	s2l    map[string]Level
	tags   [MaxLengthShortTag]map[Level]string
	colors map[Level]int
	as     map[Level]Level
	errdev map[Level]bool
}

func vSnapTables() (t vTables) {
	t.all = append(t.all, allLevels...)
	t.l2s = map[Level]string{}
	for k, v := range levelToString {
		t.l2s[k] = v
	}
	t.s2l = map[string]Level{}
	for k, v := range stringToLevel {
		t.s2l[k] = v
	}
	for i := 0; i < MaxLengthShortTag; i++ {
		t.tags[i] = map[Level]string{}
		for k, v := range shortTagMap[i] {
			t.tags[i][k] = v
		}
	}
	t.colors = map[Level]int{}
	for k, v := range mLevelColors {
		t.colors[k] = len(v)
	}
	t.as = map[Level]Level{}
	for k, v := range mLevelIsEnabledAs {
		t.as[k] = v
	}
	t.errdev = map[Level]bool{}
	for k, v := range mLevelUseErrorDevice {
		t.errdev[k] = v
	}
	return
}

func vTablesUnchanged(t vTables) bool {
	if len(allLevels) != len(t.all) || len(levelToString) != len(t.l2s) || len(stringToLevel) != len(t.s2l) ||
		len(mLevelColors) != len(t.colors) || len(mLevelIsEnabledAs) != len(t.as) || len(mLevelUseErrorDevice) != len(t.errdev) {
		return false
	}
	for i, v := range t.all {
		if allLevels[i] != v {
			return false
		}
	}
	for k, v := range t.l2s {
		if x, ok := levelToString[k]; !ok || x != v {
			return false
		}
	}
	for k, v := range t.s2l {
		if x, ok := stringToLevel[k]; !ok || x != v {
			return false
		}
	}
	for i := 0; i < MaxLengthShortTag; i++ {
		if len(shortTagMap[i]) != len(t.tags[i]) {
			return false
		}
		for k, v := range t.tags[i] {
			if x, ok := shortTagMap[i][k]; !ok || x != v {
				return false
			}
		}
	}
	for k, v := range t.as {
		if x, ok := mLevelIsEnabledAs[k]; !ok || x != v {
			return false
		}
	}
	for k, v := range t.errdev {
		if x, ok := mLevelUseErrorDevice[k]; !ok || x != v {
			return false
		}
	}
	return true
}

func vLowerASCII(s string) string {
	b := []byte(s)
	for i, c := range b {
		if c >= 'A' && c <= 'Z' {
			b[i] = c + 32
		}
	}
	return string(b)
}

func vHasUpperASCII(s string) bool {
	r := false
	for i := 0; i < len(s); i++ {
		r = vOr(r, vAnd(s[i] >= 'A', s[i] <= 'Z'))
	}
	return r
}

// vRoundTrips checks the name / text / JSON round trips of level l.
func vRoundTrips(l Level, name string, upper bool) {
	vAssert(l.String() == name, "C17: String() is the level's name")
	if upper {
		vKnown("C17-title-with-uppercase-never-parses")
	}
	got, err := ParseLevel(l.String())
	vAssert(err == nil && got == l, "C17: ParseLevel(String()) gives the level back")
	txt, err := l.MarshalText()
	vAssert(err == nil, "C17: MarshalText succeeds")
	var l2 Level = -12345
	err = l2.UnmarshalText(txt)
	vAssert(err == nil && l2 == l, "C17: UnmarshalText(MarshalText()) gives the level back")
	js, err := l.MarshalJSON()
	vAssert(err == nil, "C17: MarshalJSON succeeds")
	vKnown("C17-unmarshaljson-keeps-quotes")
	var l3 Level = -12345
	err = l3.UnmarshalJSON(js)
	vAssert(err == nil && l3 == l, "C17: UnmarshalJSON(MarshalJSON()) gives the level back")
	vKnown("")
}

// VH_C17B: round trips and short tags of the built-in levels.
func VH_C17B() {
	vProduction()
	defaultLog.SetLevel(OffLevel) // silence the "unknown logging level" diagnostic
	k := vChoose(len(allLevels))
	l := allLevels[k]
	name := levelToString[l]
	vRoundTrips(l, name, false)
	n := vChoose(5) + 1
	vAssert(len(l.ShortTag(n)) == n, "C17: ShortTag(n) of a built-in level has n characters")
	vCover("C17B:done")
}

// vSymTitle returns a symbolic non-empty ASCII title of length <= tl.
func vSymTitle(tl int) string {
	title := vString(tl)
	vAssume(len(title) > 0)
	for j := 0; j < len(title); j++ {
		vAssume(title[j] < 0x80) // ASCII titles (bound); non-ASCII case folding is outside this run
	}
	return title
}

// VH_C17R: refusal. Sequences of RegisterLevel calls with symbolic value and
// title: exact collisions are refused, refusals have a reason, and a refused
// call leaves all seven tables unchanged.
func VH_C17R() {
	vProduction()
	defaultLog.SetLevel(OffLevel)
	k := vParam("regs", 1)
	tl := vParam("title", 3)
	for i := 0; i < k; i++ {
		snap := vSnapTables()
		v := Level(vInt())
		title := vSymTitle(tl)
		err := RegisterLevel(v, title, RegWithTreatedAsLevel(InfoLevel), RegWithPrintToErrorDevice(true), RegWithColor(color.FgRed))
		valueUsed := false
		for _, x := range snap.all {
			valueUsed = vOr(valueUsed, x == v)
		}
		_, titleUsedExact := snap.s2l[title]
		_, titleUsedFolded := snap.s2l[vLowerASCII(title)]
		if valueUsed || titleUsedExact {
			vCover("C17R:collision")
			vAssert(err != nil, "C17: a value or title already in use is refused")
		}
		if err != nil {
			vCover("C17R:refused")
			vAssert(vOr(valueUsed, vOr(titleUsedExact, titleUsedFolded)), "C17: refusal only for a value or title collision")
			vAssert(vTablesUnchanged(snap), "C17: a refused registration leaves every table unchanged")
		} else {
			vCover("C17R:registered")
			vAssert(!vTablesUnchanged(snap), "C17: a successful registration is recorded")
		}
	}
}

// VH_C17N: names. After a successful registration with a symbolic title the
// name, text and JSON round trips give the level back.
func VH_C17N() {
	vProduction()
	defaultLog.SetLevel(OffLevel)
	tl := vParam("title", 3)
	v := Level(vInt())
	title := vSymTitle(tl)
	if RegisterLevel(v, title) != nil {
		return
	}
	vCover("C17N:registered")
	vRoundTrips(v, title, vHasUpperASCII(title))
}

// VH_C17T: options. A level registered with symbolic value and symbolic
// option set uses its tags, is gated as the level it is treated as, and is
// routed to the error device iff requested.
func VH_C17T() {
	vProduction()
	defaultLog.SetLevel(OffLevel)
	given := [MaxLengthShortTag]string{"", "a", "bb", "ccc", "dddd", "eeeee"}
	v := Level(vInt())
	var opts []RegOpt
	withTags := vBool()
	if withTags {
		opts = append(opts, RegWithShortTags(given))
	}
	hasTreat := vBool()
	treat := Level(vInt())
	vAssume(treat >= 0 && treat < MaxLevel)
	if hasTreat {
		opts = append(opts, RegWithTreatedAsLevel(treat))
	}
	errd := vBool()
	if errd {
		opts = append(opts, RegWithPrintToErrorDevice(true))
	}
	title := "custom"
	if vBool() {
		title = "vc" // shorter than every tag width above 2
	}
	if RegisterLevel(v, title, opts...) != nil {
		return
	}
	vCover("C17T:registered")
	switch vChoose(3) {
	case 0:
		n := vChoose(5) + 1
		tag := v.ShortTag(n)
		if withTags {
			vAssert(tag == given[n], "C17: ShortTag(n) is the registered tag")
		} else {
			vAssert(len(tag) == n, "C17: ShortTag(n) without custom tags has n characters")
		}
	case 1:
		L := Level(vInt())
		regs := []vReg{{v: v, treat: treat, has: hasTreat}}
		vAssert(L.Enabled(vCtx, v) == vSpecEnabled(L, v, false, regs), "C17: the new level is gated as the level it is treated as")
	case 2:
		dw := newDualWriter()
		ws := dw.Get(v)
		vAssert(len(ws) == 1, "C17: one default destination")
		f, isFile := ws[0].(*filewr)
		vAssert(isFile, "C17: default destination is a file writer")
		if errd {
			vAssert(f.File == dw.Error[0].(*filewr).File, "C17: routed to the error device when requested")
		} else {
			vAssert(f.File == dw.Normal[0].(*filewr).File, "C17: routed to the normal device otherwise")
		}
	}
	vCover("C17T:done")
}

// VH_C17L: looking a level up before it is registered (its name, a short tag,
// a record logged at it) must not stand in the way of registering it later.
func VH_C17L() {
	vProduction()
	defaultLog.SetLevel(OffLevel)
	v := []Level{13, 100, -21}[vChoose(3)]
	switch vChoose(4) {
	case 1:
		_ = v.String()
	case 2:
		_ = v.ShortTag(3)
	case 3:
		rec := &vRec{}
		lg := New("x").(*logimp).Entry
		lg.SetWriter(&recW{0, rec}).SetErrorWriter(&recW{0, rec}).SetLevel(TraceLevel)
		lg.WriteThru(vCtx, v, vTime0(), 0, "m", nil)
	}
	err := RegisterLevel(v, "fresh")
	vCover("C17L:registered")
	vAssert(err == nil, "C17: an unused value and title are registered, whatever was looked up before")
	if err == nil {
		vRoundTrips(v, "fresh", false)
	}
}
