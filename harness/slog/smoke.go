package slog

type smokeW struct{ evs *[]string }

func (w smokeW) Write(b []byte) (int, error) { *w.evs = append(*w.evs, string(b)); return len(b), nil }

func VH_Smoke() {
	var evs []string
	l := New("x").SetWriter(smokeW{&evs}).SetErrorWriter(smokeW{&evs}).SetLevel(InfoLevel)
	l.Info("hello", "a", 1, "b", "two")
	l.SetJSONMode(true)
	l.Warn("hello", "a", 1, "b", "two")
	l.SetColorMode(false)
	l.Error("hello", "a", 1, "b", "two")
	for _, e := range evs {
		println(e)
	}
}
