package slog

import (
	"fmt"
	"io"
	"time"
)

// C10: logger hierarchy: lookup by name, inheritance at creation, isolation
// afterwards. The harness keeps a model tree and compares every logger's
// settings with it after every operation.

type vNode struct {
	l      *Entry
	parent int
	name   string
	level  Level
	json   bool
	color  bool
	utc    int
	layout string
	nattrs int
	skip   int
	nctx   int
	wr     io.Writer // nil = never given a writer
}

func vCheckTree(ns []vNode) {
	for i, n := range ns {
		l := n.l
		vAssert(l.Name() == n.name, "C10: name agrees with the creation history")
		if n.parent < 0 {
			vAssert(l.Parent() == nil, "C10: a detached logger has no parent")
		} else {
			vAssert(l.Parent() == ns[n.parent].l, "C10: Parent agrees with the creation history")
		}
		root := i
		for ns[root].parent >= 0 {
			root = ns[root].parent
		}
		vAssert(l.Root() == ns[root].l, "C10: Root agrees with the creation history")
		vAssert(l.Level() == n.level, "C10: level is what the operations on this logger denote (no other logger changed it)")
		vAssert(l.JSONMode() == n.json && l.ColorMode() == n.color, "C10: format is what the operations on this logger denote")
		vAssert(l.modeUTC == n.utc && l.timeLayout == n.layout, "C10: UTC mode and time layout are this logger's own")
		vAssert(len(l.attrs) == n.nattrs, "C10: attributes are this logger's own")
		vAssert(l.Skip() == n.skip, "C10: skip count is this logger's own")
		vAssert(len(l.contextKeys) == n.nctx, "C10: context keys are this logger's own")
		if n.wr == nil {
			vAssert(l.writer == nil, "C10: a logger never given writers has none")
		} else {
			vAssert(l.writer != nil && len(l.writer.Normal) == 1, "C10: writer is this logger's own")
		}
	}
}

// vSubtree returns the indices of the subtree of x with their depths.
func vSubtree(ns []vNode, x int) map[int]int {
	out := map[int]int{x: 0}
	for changed := true; changed; {
		changed = false
		for i, n := range ns {
			if _, in := out[i]; !in && n.parent >= 0 {
				if d, ok := out[n.parent]; ok {
					out[i] = d + 1
					changed = true
				}
			}
		}
	}
	return out
}

func VH_C10() {
	vProduction()
	lvlCurrent = WarnLevel
	rootI := New("root")
	root := rootI.(*logimp).Entry
	vAssert(root.Parent() == nil && root.ColorMode() && !root.JSONMode() && root.Level() == WarnLevel,
		"C10: the package-level New gives a detached colored logger at the package default level")
	ns := []vNode{{l: root, parent: -1, name: "root", level: WarnLevel, color: true}}
	rec := &vRec{}
	steps := vParam("steps", 2)
	levels := []Level{InfoLevel, ErrorLevel, TraceLevel - 1} // (Debug/Trace switch process-wide modes: documented side effect, excluded here)
	for k := 0; k < steps; k++ {
		x := vChoose(len(ns))
		X := ns[x].l
		op := vChoose(21)
		// child-creating operations: child starts with the receiver's level and format only
		newChild := func(c *Entry) int {
			for i := range ns {
				if ns[i].l == c {
					return i
				}
			}
			vAssert(c.Parent() == X, "C10: a created logger is a child of the receiver")
			ns = append(ns, vNode{l: c, parent: x, name: c.Name(), level: ns[x].level, json: ns[x].json, color: ns[x].color})
			return len(ns) - 1
		}
		isNew := func(c *Entry) bool {
			for i := range ns {
				if ns[i].l == c {
					return false
				}
			}
			return true
		}
		t := x // logger whose setting changes
		withOp := false
		var ret *Entry
		switch op {
		case 0, 1:
			name := []string{"a", "b"}[op]
			existing := -1
			for i, n := range ns {
				if n.parent == x && n.name == name {
					existing = i
				}
			}
			c := X.New(name)
			if existing >= 0 {
				vAssert(c == ns[existing].l, "C10: New(name) returns the existing direct child of that name")
			} else {
				vAssert(isNew(c), "C10: New(name) creates a logger when no direct child has that name")
				i := newChild(c)
				vAssert(ns[i].name == name, "C10: the created child carries the given name")
			}
			continue
		case 2:
			c := X.New()
			vAssert(isNew(c), "C10: New() creates an anonymous child")
			newChild(c)
			continue
		case 3:
			lv := levels[vChoose(3)]
			ret = X.WithLevel(lv)
			withOp = true
			vAssert(isNew(ret), "C10: With... returns a newly created logger")
			t = newChild(ret)
			ns[t].level = lv
		case 4:
			lv := levels[vChoose(3)]
			ret = X.SetLevel(lv)
			ns[t].level = lv
		case 5:
			b := vBool()
			ret = X.WithJSONMode(b)
			withOp = true
			vAssert(isNew(ret), "C10: With... returns a newly created logger")
			t = newChild(ret)
			st := vSpecStep(vStateOfBools(ns[t].json, ns[t].color), true, b)
			ns[t].json, ns[t].color = st == vFmtJSON, st == vFmtColor
		case 6:
			b := vBool()
			ret = X.SetColorMode(b)
			st := vSpecStep(vStateOfBools(ns[t].json, ns[t].color), false, b)
			ns[t].json, ns[t].color = st == vFmtJSON, st == vFmtColor
		case 7:
			b := vBool()
			ret = X.WithUTCMode(b)
			withOp = true
			vAssert(isNew(ret), "C10: With... returns a newly created logger")
			t = newChild(ret)
			ns[t].utc = 1
			if b {
				ns[t].utc = 2
			}
		case 8:
			ret = X.SetUTCMode()
			ns[t].utc = 2
		case 9:
			ret = X.WithTimeFormat(time.Kitchen)
			withOp = true
			vAssert(isNew(ret), "C10: With... returns a newly created logger")
			t = newChild(ret)
			ns[t].layout = time.Kitchen
		case 10:
			ret = X.SetTimeFormat(time.Stamp)
			ns[t].layout = time.Stamp
		case 11:
			ret = X.WithAttrs(NewAttr("k", 1))
			withOp = true
			vAssert(isNew(ret), "C10: With... returns a newly created logger")
			t = newChild(ret)
			ns[t].nattrs++
		case 12:
			ret = X.Set("k", 1, "j", 2)
			ns[t].nattrs += 2
		case 13:
			n := vChoose(3)
			want := fmt.Sprintf("c/%s[%d]", ns[x].name, n)
			existing := -1
			for i, nd := range ns {
				if nd.parent == x && nd.name == want {
					existing = i
				}
			}
			ret = X.WithSkip(n)
			if existing >= 0 {
				vAssert(ret == ns[existing].l, "C10: WithSkip(n) keeps one child per n")
				t = existing
			} else {
				vAssert(isNew(ret), "C10: WithSkip(n) creates the child for a new n")
				t = newChild(ret)
			}
			withOp = true
			ns[t].skip = n
		case 14:
			n := vChoose(3)
			X.SetSkip(n)
			ret = X
			ns[t].skip = n
		case 15:
			ret = X.WithContextKeys("ck")
			withOp = true
			vAssert(isNew(ret), "C10: With... returns a newly created logger")
			t = newChild(ret)
			ns[t].nctx++
		case 16:
			ret = X.SetContextKeys("ck", "cj")
			ns[t].nctx += 2
		case 17:
			ret = X.ResetContextKeys()
			ns[t].nctx = 0
		case 18:
			w := &recW{k, rec}
			ret = X.WithWriter(w)
			withOp = true
			vAssert(isNew(ret), "C10: With... returns a newly created logger")
			t = newChild(ret)
			ns[t].wr = w
		case 19:
			w := &recW{k, rec}
			ret = X.SetWriter(w)
			ns[t].wr = w
		case 20:
			// lookups only
			ret = X
		}
		if withOp {
			vAssert(ret != X, "C10: With... leaves the receiver untouched and returns another logger")
		} else {
			vAssert(ret == X, "C10: Set... returns the receiver")
		}
		vCheckTree(ns)
	}
	vCheckTree(ns)
	// lookups on every logger
	for x := range ns {
		sub := vSubtree(ns, x)
		seen := map[*Entry]int{}
		ns[x].l.Each(func(l *Entry, depth int) {
			seen[l]++
			found := false
			for i, d := range sub {
				if ns[i].l == l {
					found = true
					vAssert(d == depth, "C10: Each reports each logger at its depth")
				}
			}
			vAssert(found, "C10: Each visits only loggers of the subtree")
		})
		vAssert(len(seen) == len(sub), "C10: Each visits every logger of the subtree")
		for _, c := range seen {
			vAssert(c == 1, "C10: Each visits each logger exactly once")
		}
		for _, name := range []string{"a", "b", "root", "zz"} {
			has := false
			for i := range sub {
				if ns[i].name == name {
					has = true
				}
			}
			got := ns[x].l.Sublogger(name)
			vAssert((got != nil) == has, "C10: Sublogger finds a logger iff the subtree has one of that name")
			if got != nil {
				in := false
				for i := range sub {
					if ns[i].l == got {
						in = true
					}
				}
				vAssert(in && got.Name() == name, "C10: Sublogger returns a logger of the subtree with that name")
			}
		}
	}
	vCover("C10:done")
}

func vStateOfBools(js, color bool) int {
	switch {
	case js:
		return vFmtJSON
	case color:
		return vFmtColor
	}
	return vFmtLogfmt
}

// VH_C10D: the package default level in a production process and package
// level SetLevel/New.
func VH_C10D() {
	// the library's real init() has run under the engine's production
	// environment (not a test binary, no debugger, DEBUG unset)
	if vIsEngine() {
		vAssert(GetLevel() == WarnLevel, "C10: the default level of a production process is Warn")
	}
	L := []Level{ErrorLevel, InfoLevel, WarnLevel}[vChoose(3)]
	SetLevel(L)
	l := New("n").(*logimp).Entry
	vAssert(l.Parent() == nil && l.Level() == L && l.ColorMode() && !l.JSONMode(), "C10: package-level New: detached, colored, at the package's current default level")
	vCover("C10D:done")
}
