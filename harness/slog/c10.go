package slog

import (
	"fmt"
	"io"
	"time"
)

// C10: logger hierarchy: lookup by name, inheritance at creation, isolation
// afterwards. The harness keeps a model tree and compares every logger's
// settings with it after every operation.

type vNode struct {
	l      *Entry
	parent int
	name   string
	level  Level
	json   bool
	color  bool
	utc    int
	layout string
	attrs  []vKV // own attributes in order (key, integer value)
	skip   int
	ctxk   []string // registered context keys in order
	wr     io.Writer // nil = never given a writer
	nw     int       // number of normal writers the logger's own set holds
}

func vCheckTree(ns []vNode) {
	for i, n := range ns {
		l := n.l
		vAssert(l.Name() == n.name, "C10: name agrees with the creation history")
		if n.parent < 0 {
			vAssert(l.Parent() == nil, "C10: a detached logger has no parent")
		} else {
			vAssert(l.Parent() == ns[n.parent].l, "C10: Parent agrees with the creation history")
		}
		root := i
		for ns[root].parent >= 0 {
			root = ns[root].parent
		}
		vAssert(l.Root() == ns[root].l, "C10: Root agrees with the creation history")
		vAssert(l.Level() == n.level, "C10: level is what the operations on this logger denote (no other logger changed it)")
		vAssert(vAnd(l.JSONMode() == n.json, l.ColorMode() == n.color), "C10: format is what the operations on this logger denote")
		vAssert(vAnd(l.modeUTC == n.utc, l.timeLayout == n.layout), "C10: UTC mode and time layout are this logger's own")
		vAssert(len(l.attrs) == len(n.attrs), "C10: attributes are this logger's own")
		for j, kv := range n.attrs {
			if j < len(l.attrs) {
				v, _ := l.attrs[j].Value().(int)
				vAssert(vAnd(l.attrs[j].Key() == kv.k, v == kv.v), "C10: attributes are this logger's own (no other logger's operation rewrote them)")
			}
		}
		vAssert(l.Skip() == n.skip, "C10: skip count is this logger's own")
		vAssert(len(l.contextKeys) == len(n.ctxk), "C10: context keys are this logger's own")
		for j, k := range n.ctxk {
			if j < len(l.contextKeys) {
				got, _ := l.contextKeys[j].(string)
				vAssert(got == k, "C10: context keys are this logger's own (no other logger's operation rewrote them)")
			}
		}
		if n.wr == nil {
			vAssert(l.writer == nil, "C10: a logger never given writers has none")
		} else {
			want := n.nw
			if want == 0 {
				want = 1
			}
			vAssert(l.writer != nil && len(l.writer.Normal) == want, "C10: writer is this logger's own")
		}
		// loggers without writers of their own fall back to the package's default set, which no logger's operation may change
		vAssert(defaultWriter != nil && len(defaultWriter.Normal) == 1 && len(defaultWriter.Error) == 1, "C10: the package's default writers are not changed by an operation on a logger")
	}
}

// vSubtree returns the indices of the subtree of x with their depths.
func vSubtree(ns []vNode, x int) map[int]int {
	out := map[int]int{x: 0}
	for changed := true; changed; {
		changed = false
		for i, n := range ns {
			if _, in := out[i]; !in && n.parent >= 0 {
				if d, ok := out[n.parent]; ok {
					out[i] = d + 1
					changed = true
				}
			}
		}
	}
	return out
}

func VH_C10() {
	vProduction()
	lvlCurrent = WarnLevel
	rootI := New("root")
	root := rootI.(*logimp).Entry
	vAssert(root.Parent() == nil && root.ColorMode() && !root.JSONMode() && root.Level() == WarnLevel,
		"C10: the package-level New gives a detached colored logger at the package default level")
	ns := []vNode{{l: root, parent: -1, name: "root", level: WarnLevel, color: true}}
	rec := &vRec{}
	steps := vParam("steps", 2)
	shared := make(Attrs, 1, 4)
	shared[0] = NewAttr("s", 7)
	levels := []Level{InfoLevel, ErrorLevel, TraceLevel - 1} // (Debug/Trace switch process-wide modes: documented side effect, excluded here)
	for k := 0; k < steps; k++ {
		x := vChoose(len(ns))
		X := ns[x].l
		op := vChoose(24)
		// child-creating operations: child starts with the receiver's level and format only
		newChild := func(c *Entry) int {
			for i := range ns {
				if ns[i].l == c {
					return i
				}
			}
			vAssert(c.Parent() == X, "C10: a created logger is a child of the receiver")
			ns = append(ns, vNode{l: c, parent: x, name: c.Name(), level: ns[x].level, json: ns[x].json, color: ns[x].color})
			return len(ns) - 1
		}
		isNew := func(c *Entry) bool {
			for i := range ns {
				if ns[i].l == c {
					return false
				}
			}
			return true
		}
		t := x // logger whose setting changes
		withOp := false
		var ret *Entry
		switch op {
		case 0, 1:
			name := []string{"a", "b"}[op]
			existing := -1
			for i, n := range ns {
				if n.parent == x && n.name == name {
					existing = i
				}
			}
			c := X.New(name)
			if existing >= 0 {
				vAssert(c == ns[existing].l, "C10: New(name) returns the existing direct child of that name")
			} else {
				vAssert(isNew(c), "C10: New(name) creates a logger when no direct child has that name")
				i := newChild(c)
				vAssert(ns[i].name == name, "C10: the created child carries the given name")
			}
			continue
		case 2:
			c := X.New()
			vAssert(isNew(c), "C10: New() creates an anonymous child")
			newChild(c)
			continue
		case 3:
			lv := levels[vChoose(3)]
			ret = X.WithLevel(lv)
			withOp = true
			vAssert(isNew(ret), "C10: With... returns a newly created logger")
			t = newChild(ret)
			ns[t].level = lv
		case 4:
			lv := levels[vChoose(3)]
			ret = X.SetLevel(lv)
			ns[t].level = lv
		case 5:
			b := vBool()
			ret = X.WithJSONMode(b)
			withOp = true
			vAssert(isNew(ret), "C10: With... returns a newly created logger")
			t = newChild(ret)
			st := vSpecStep(vStateOfBools(ns[t].json, ns[t].color), true, b)
			ns[t].json, ns[t].color = st == vFmtJSON, st == vFmtColor
		case 6:
			b := vBool()
			ret = X.SetColorMode(b)
			st := vSpecStep(vStateOfBools(ns[t].json, ns[t].color), false, b)
			ns[t].json, ns[t].color = st == vFmtJSON, st == vFmtColor
		case 7:
			b := vBool()
			ret = X.WithUTCMode(b)
			withOp = true
			vAssert(isNew(ret), "C10: With... returns a newly created logger")
			t = newChild(ret)
			ns[t].utc = 1
			if b {
				ns[t].utc = 2
			}
		case 8:
			ret = X.SetUTCMode()
			ns[t].utc = 2
		case 9:
			ret = X.WithTimeFormat(time.Kitchen)
			withOp = true
			vAssert(isNew(ret), "C10: With... returns a newly created logger")
			t = newChild(ret)
			ns[t].layout = time.Kitchen
		case 10:
			ret = X.SetTimeFormat(time.Stamp)
			ns[t].layout = time.Stamp
		case 11:
			ret = X.WithAttrs(NewAttr("k", 10*k+1))
			withOp = true
			vAssert(isNew(ret), "C10: With... returns a newly created logger")
			t = newChild(ret)
			ns[t].attrs = append(ns[t].attrs, vKV{"k", 10*k + 1})
		case 12:
			ret = X.Set("k", 10*k+2, "j", 10*k+3)
			ns[t].attrs = append(ns[t].attrs, vKV{"k", 10*k + 2}, vKV{"j", 10*k + 3})
		case 13:
			n := vChoose(3)
			want := fmt.Sprintf("c/%s[%d]", ns[x].name, n)
			existing := -1
			for i, nd := range ns {
				if nd.parent == x && nd.name == want {
					existing = i
				}
			}
			ret = X.WithSkip(n)
			if existing >= 0 {
				vAssert(ret == ns[existing].l, "C10: WithSkip(n) keeps one child per n")
				t = existing
			} else {
				vAssert(isNew(ret), "C10: WithSkip(n) creates the child for a new n")
				t = newChild(ret)
			}
			withOp = true
			ns[t].skip = n
		case 14:
			n := vChoose(3)
			X.SetSkip(n)
			ret = X
			ns[t].skip = n
		case 15:
			ret = X.WithContextKeys("ck")
			withOp = true
			vAssert(isNew(ret), "C10: With... returns a newly created logger")
			t = newChild(ret)
			ns[t].ctxk = append(ns[t].ctxk, "ck")
		case 16:
			ret = X.SetContextKeys("ck", "cj")
			ns[t].ctxk = append(ns[t].ctxk, "ck", "cj")
		case 17:
			ret = X.ResetContextKeys()
			ns[t].ctxk = nil
		case 18:
			w := &recW{k, rec}
			ret = X.WithWriter(w)
			withOp = true
			vAssert(isNew(ret), "C10: With... returns a newly created logger")
			t = newChild(ret)
			ns[t].wr = w
		case 19:
			w := &recW{k, rec}
			ret = X.SetWriter(w)
			ns[t].wr = w
			ns[t].nw = 1
		case 20:
			// lookups only
			ret = X
		case 23:
			// AddWriter as the first writer operation of a logger: its own set becomes the defaults plus w
			w := &recW{k, rec}
			ret = X.AddWriter(w)
			if ns[t].wr == nil {
				ns[t].nw = 2
			} else {
				if ns[t].nw == 0 {
					ns[t].nw = 1
				}
				ns[t].nw++
			}
			ns[t].wr = w
		case 21:
			// a prepared attribute set with spare capacity, handed to several loggers
			ret = X.SetAttrs1(shared)
			ns[t].attrs = append(ns[t].attrs, vKV{"s", 7})
		case 22:
			ret = X.WithAttrs1(shared)
			withOp = true
			vAssert(isNew(ret), "C10: With... returns a newly created logger")
			t = newChild(ret)
			ns[t].attrs = append(ns[t].attrs, vKV{"s", 7})
		}
		if withOp {
			vAssert(ret != X, "C10: With... leaves the receiver untouched and returns another logger")
		} else {
			vAssert(ret == X, "C10: Set... returns the receiver")
		}
		vCheckTree(ns)
		vAssert(vAnd(len(shared) == 1, shared[0].Key() == "s"), "C10: the caller's prepared attributes are left as given")
	}
	vCheckTree(ns)
	// lookups on every logger
	for x := range ns {
		sub := vSubtree(ns, x)
		seen := map[*Entry]int{}
		ns[x].l.Each(func(l *Entry, depth int) {
			seen[l]++
			found := false
			for i, d := range sub {
				if ns[i].l == l {
					found = true
					vAssert(d == depth, "C10: Each reports each logger at its depth")
				}
			}
			vAssert(found, "C10: Each visits only loggers of the subtree")
		})
		vAssert(len(seen) == len(sub), "C10: Each visits every logger of the subtree")
		for _, c := range seen {
			vAssert(c == 1, "C10: Each visits each logger exactly once")
		}
		for _, name := range []string{"a", "b", "root", "zz"} {
			has := false
			for i := range sub {
				if ns[i].name == name {
					has = true
				}
			}
			got := ns[x].l.Sublogger(name)
			vAssert((got != nil) == has, "C10: Sublogger finds a logger iff the subtree has one of that name")
			if got != nil {
				in := false
				for i := range sub {
					if ns[i].l == got {
						in = true
					}
				}
				vAssert(in && got.Name() == name, "C10: Sublogger returns a logger of the subtree with that name")
			}
		}
	}
	vCover("C10:done")
}

func vStateOfBools(js, color bool) int {
	switch {
	case js:
		return vFmtJSON
	case color:
		return vFmtColor
	}
	return vFmtLogfmt
}

// VH_C10D: the package default level in a production process and package
// level SetLevel/New.
func VH_C10D() {
	// the library's real init() has run under the engine's production
	// environment (not a test binary, no debugger, DEBUG unset)
	if vIsEngine() {
		vAssert(GetLevel() == WarnLevel, "C10: the default level of a production process is Warn")
	}
	L := []Level{ErrorLevel, InfoLevel, WarnLevel}[vChoose(3)]
	SetLevel(L)
	// a level set on the default logger itself (or a replaced default logger) is that logger's
	// own: only the package-level SetLevel moves the package's default level
	switch vChoose(3) {
	case 1:
		Default().SetLevel([]Level{ErrorLevel, InfoLevel, TraceLevel - 1}[vChoose(3)])
	case 2:
		SetDefault(New("other").SetLevel([]Level{ErrorLevel, InfoLevel}[vChoose(2)]))
	}
	vAssert(GetLevel() == L, "C10: the package's default level is what the package-level SetLevel set")
	l := New("n").(*logimp).Entry
	vAssert(l.Parent() == nil && l.Level() == L && l.ColorMode() && !l.JSONMode(), "C10: package-level New: detached, colored, at the package's current default level")
	vCover("C10D:done")
}

// VH_C10S: isolation of attributes between loggers that were given the SAME
// prepared attribute set (with spare capacity) - the tree starts with two
// children and one option-built logger sharing it; then attribute operations
// on arbitrary loggers; every logger's attribute content is compared after
// every step.
func VH_C10S() {
	vProduction()
	shared := make(Attrs, 1, 4)
	shared[0] = NewAttr("s", 7)
	root := New("root").(*logimp).Entry
	a := root.WithAttrs1(shared)
	b := root.WithAttrs1(shared)
	c := New("c", WithAttrs1(shared)).(*logimp).Entry
	lv, js, cl := root.Level(), root.JSONMode(), root.ColorMode()
	ns := []vNode{
		{l: root, parent: -1, name: "root", level: lv, json: js, color: cl},
		{l: a, parent: 0, name: a.Name(), level: lv, json: js, color: cl, attrs: []vKV{{"s", 7}}},
		{l: b, parent: 0, name: b.Name(), level: lv, json: js, color: cl, attrs: []vKV{{"s", 7}}},
		{l: c, parent: -1, name: "c", level: c.Level(), json: c.JSONMode(), color: c.ColorMode(), attrs: []vKV{{"s", 7}}},
	}
	sharedKeys := make([]any, 1, 4)
	sharedKeys[0] = "sk"
	a.SetContextKeys(sharedKeys...)
	b.SetContextKeys(sharedKeys...)
	ns[1].ctxk, ns[2].ctxk = []string{"sk"}, []string{"sk"}
	vCheckTree(ns)
	steps := vParam("steps", 2)
	for k := 0; k < steps; k++ {
		x := vChoose(len(ns))
		X := ns[x].l
		switch vChoose(6) {
		case 4:
			// the same prepared key list (spare capacity) spread into several loggers
			X.SetContextKeys(sharedKeys...)
			ns[x].ctxk = append(ns[x].ctxk, "sk")
		case 5:
			key := "k" + string(rune('0'+k))
			X.SetContextKeys(key)
			ns[x].ctxk = append(ns[x].ctxk, key)
		case 0:
			X.SetAttrs(NewAttr("k", 10*k+1))
			ns[x].attrs = append(ns[x].attrs, vKV{"k", 10*k + 1})
		case 1:
			X.Set("k", 10*k+2, "j", 10*k+3)
			ns[x].attrs = append(ns[x].attrs, vKV{"k", 10*k + 2}, vKV{"j", 10*k + 3})
		case 2:
			X.SetAttrs1(shared)
			ns[x].attrs = append(ns[x].attrs, vKV{"s", 7})
		case 3:
			ch := X.WithAttrs(NewAttr("w", 10*k+4))
			ns = append(ns, vNode{l: ch, parent: x, name: ch.Name(), level: ns[x].level, json: ns[x].json, color: ns[x].color,
				attrs: []vKV{{"w", 10*k + 4}}})
		}
		vCheckTree(ns)
		vAssert(vAnd(len(shared) == 1, shared[0].Key() == "s"), "C10: the caller's prepared attributes are left as given")
		vAssert(len(sharedKeys) == 1 && sharedKeys[0] == "sk", "C10: the caller's key list is left as given")
	}
	vCover("C10S:done")
}

// VH_C10I: the inductive form of isolation. A fixed tree root -> a -> b and
// root -> c whose every logger has ARBITRARY settings (symbolic level, any
// format state and UTC mode as solver variables; layout, attributes, skip,
// context keys and writer from two profiles per logger), assigned directly to
// the fields; ONE operation on one logger; every other logger must be exactly
// as before and the target must be what the operation denotes.
func VH_C10I() {
	vProduction()
	rec := &vRec{}
	root := New("root").(*logimp).Entry
	a := root.New("a")
	b := a.New("b")
	c := root.New("c")
	ls := []*Entry{root, a, b, c}
	parents := []int{-1, 0, 1, 0}
	ns := make([]vNode, len(ls))
	for i, l := range ls {
		n := vNode{l: l, parent: parents[i], name: l.Name()}
		n.level = Level(vInt())
		vAssume(vAnd(n.level != DebugLevel, n.level != TraceLevel))
		n.json, n.color = vBool(), vBool()
		vAssume(vNot(vAnd(n.json, n.color)))
		n.utc = int(vInt())
		vAssume(vAnd(n.utc >= 0, n.utc <= 2))
		if vBool() { // profile
			n.layout, n.skip, n.ctxk = time.Kitchen, 1, []string{"ck"}
			n.attrs = []vKV{{"p", 100 + i}}
			l.attrs = append(l.attrs, NewAttr("p", 100+i))
			l.contextKeys = append(l.contextKeys, "ck")
			w := &recW{i, rec}
			l.SetWriter(w)
			n.wr = w
		}
		l.level, l.useJSON, l.useColor, l.modeUTC, l.timeLayout, l.extraFrames = n.level, n.json, n.color, n.utc, n.layout, n.skip
		ns[i] = n
	}
	vCheckTree(ns)
	x := vChoose(len(ls))
	X := ns[x].l
	var ret *Entry
	switch vChoose(9) {
	case 0:
		lv := []Level{InfoLevel, ErrorLevel}[vChoose(2)]
		ret = X.SetLevel(lv)
		ns[x].level = lv
	case 1:
		bv := vBool()
		ret = X.SetJSONMode(bv)
		ns[x].json, ns[x].color = bv, vAnd(ns[x].color, vNot(bv))
	case 2:
		bv := vBool()
		ret = X.SetColorMode(bv)
		ns[x].json, ns[x].color = false, bv
	case 3:
		ret = X.SetUTCMode(false)
		ns[x].utc = 1
	case 4:
		ret = X.SetTimeFormat(time.Stamp)
		ns[x].layout = time.Stamp
	case 5:
		ret = X.SetAttrs(NewAttr("n", 1))
		ns[x].attrs = append(ns[x].attrs, vKV{"n", 1})
	case 6:
		X.SetSkip(2)
		ret = X
		ns[x].skip = 2
	case 7:
		ret = X.ResetContextKeys()
		ns[x].ctxk = nil
	case 8:
		w := &recW{9, rec}
		ret = X.SetWriter(w)
		ns[x].wr = w
	}
	vAssert(ret == X, "C10: Set... returns the receiver")
	vCheckTree(ns)
	vCover("C10I:done")
}
