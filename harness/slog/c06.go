package slog

import (
	"errors"
	"strings"
)

// C06: colored console mode: faithful layout and no colour bleeding.

// vStripSGR removes ESC [ digits(;digits)* m sequences; ok=false if an ESC
// occurs outside such a sequence. offAtBreaks reports that no colour is on at
// any line break nor at the end.
func vStripSGR(p string) (plain string, ok bool, offAtBreaks bool) {
	var out []byte
	on := false
	offAtBreaks = true
	for i := 0; i < len(p); {
		c := p[i]
		if c == 0x1b {
			j := i + 1
			if j >= len(p) || p[j] != '[' {
				return "", false, false
			}
			j++
			d0 := j
			for j < len(p) && (p[j] >= '0' && p[j] <= '9' || p[j] == ';') {
				j++
			}
			if j >= len(p) || p[j] != 'm' {
				return "", false, false
			}
			code := p[d0:j]
			on = !(code == "0" || code == "")
			i = j + 1
			continue
		}
		if c == '\n' && on {
			offAtBreaks = false
		}
		out = append(out, c)
		i++
	}
	if on {
		offAtBreaks = false
	}
	return string(out), true, offAtBreaks
}

func vRightPad(s string, w int) string {
	for len(s) < w {
		s += " "
	}
	return s
}

func VH_C06() {
	vProduction()
	flags = LstdFlags &^ Lcaller
	rec := &vRec{}
	lg := New("x").(*logimp).Entry
	lg.SetWriter(&recW{0, rec}).SetErrorWriter(&recW{0, rec}).SetLevel(TraceLevel)
	// severity and tag width
	const cTagged, cPlain = Level(40), Level(41)
	_ = RegisterLevel(cTagged, "tagged", RegWithShortTags([MaxLengthShortTag]string{"", "T", "TG", "TGD", "TAGD", "TAGGD"}))
	_ = RegisterLevel(cPlain, "plain")
	const cSparse = Level(43) // short tags given for some widths only
	_ = RegisterLevel(cSparse, "sparse", RegWithShortTags([MaxLengthShortTag]string{"", "", "", "SPR", "", "SPARS"}))
	sev := []Level{InfoLevel, ErrorLevel, cTagged, cPlain, Level(77), cSparse}[vChoose(6)]
	tw := 3
	if vParam("widths", 0) == 1 {
		tw = vChoose(5) + 1
		SetLevelOutputWidth(tw)
	}
	mw := 36
	if vParam("widths", 0) == 1 {
		mw = []int{36, 16, 17}[vChoose(3)]
		SetMessageMinimalWidth(mw)
	}
	var tag string
	switch sev {
	case InfoLevel:
		tag = []string{"", "I", "IF", "INF", "INFO", "INFOR"}[tw]
	case ErrorLevel:
		tag = []string{"", "E", "ER", "ERR", "ERRO", "ERROR"}[tw]
	case cTagged:
		tag = []string{"", "T", "TG", "TGD", "TAGD", "TAGGD"}[tw]
	case cPlain:
		tag = vRightPad("plain", tw)[:tw]
	case cSparse:
		tag = []string{"", "s", "sp", "SPR", "spar", "SPARS"}[tw]
	default:
		tag = vRightPad("L#77", tw)[:tw]
	}
	// message
	hygieneOnly := vParam("hygiene", 0) == 1
	// a []byte value is checked with a fixed message, so that every control
	// byte in the output can only come from the value
	special := 0 // 1: []byte value, 2: error value, 3: Stringer value - each with an arbitrary byte
	if vParam("attrkinds", 4) > 4 {
		special = vChoose(vParam("attrkinds", 4) - 3)
	}
	rawBytes := special > 0
	nk := vParam("attrkinds", 4)
	if nk > 4 {
		nk = 4
	}
	if rawBytes {
		nk = 1
	}
	kind := vChoose(nk)
	// symbolic values are combined with a fixed message (message and values are
	// independent in the code); the symbolic message with fixed values
	msg := "m"
	if !rawBytes && kind != 2 {
		msg = vString(vParam("msg", 2))
	}
	vAssume(len(msg) > 0)
	for i := 0; i < len(msg); i++ {
		c := msg[i]
		if hygieneOnly {
			vAssume(c != 0x1b)
		} else {
			vAssume((c >= 0x20 && c < 0x7f && c != '<' && c != '>' && c != '&') || c == '\n')
		}
	}
	if vParam("tail", 0) == 1 {
		// longer messages: a symbolic head followed by a concrete tail that
		// crosses the minimal width, on the same line or on a second line
		switch vChoose(3) {
		case 1:
			msg += strings.Repeat("x", 34)
		case 2:
			msg += "\n" + strings.Repeat("y", 40)
		}
	}
	blank := strings.Trim(msg, "\n\r \t") == ""
	// attributes
	var attrs Attrs
	var want []string
	switch kind {
	case 1:
		attrs = Attrs{NewAttr("b", 2), NewAttr("a", 1)}
		want = []string{"a=1", "b=2"}
	case 2:
		s := vString(1)
		attrs = Attrs{NewAttr("k", s)}
		want = []string{"k=" + strconvQuote(s)}
	case 3:
		attrs = Attrs{NewAttr("e", errors.New("boom")), Group("g", "x", 1)}
		want = []string{`e="boom"`, "g.x=1"}
	}
	if rawBytes {
		b := vString(1)
		switch special {
		case 1:
			attrs = Attrs{NewAttr("y", []byte(b))}
		case 2:
			attrs = Attrs{NewAttr("y", errors.New("e"+b)), NewAttr("z", 1)}
		case 3:
			attrs = Attrs{NewAttr("y", vStringerT{"s" + b})}
		}
		want = []string{"y=" + strconvQuote(b)}
	}
	lg.WriteThru(vCtx, sev, vTime0(), 0, msg, attrs)
	vAssert(len(rec.evs) == 1, "C06: one record")
	p := rec.evs[0].P
	plain, ok, off := vStripSGR(p)
	vCover("C06:rendered")
	if rawBytes {
		vKnown("C06-byte-slices-written-raw")
	}
	vAssert(ok, "C06: every escape byte in the record belongs to one of the library's own SGR sequences")
	if strings.Contains(msg, "\r") && strings.ContainsAny(msg, "<&") {
		// text with markup characters goes through the HTML-based translator,
		// which turns CR (and CRLF) into LF inside the coloured first line
		vKnown("C06-cr-in-message-breaks-the-coloured-line")
	}
	vAssert(off, "C06: every colour switched on is switched off before each line break and before the record ends")
	vKnown("")
	if rawBytes {
		vKnown("C06-byte-slices-written-raw")
		for i := 0; i < len(plain); i++ {
			vAssert(plain[i] >= 0x20 || plain[i] == '\n', "C06: attribute values contribute no raw control bytes")
		}
	}
	for i := 0; i < len(plain); i++ {
		vAssert(plain[i] >= 0x20 || plain[i] == '\n' || hygieneOnly, "C06: no raw control byte besides line breaks")
	}
	if hygieneOnly {
		return
	}
	if sev == AlwaysLevel && blank {
		return
	}
	// layout
	m := msg
	eol := m[len(m)-1] == '\n'
	if eol {
		m = strings.TrimRight(m, "\n\r")
	}
	first, rest := m, ""
	if ix := strings.IndexByte(m, '\n'); ix >= 0 {
		first, rest = m[:ix], m[ix+1:]
	}
	if first != strings.TrimLeft(first, " ") || (first == "" && len(msg) > 0) {
		vKnown("C06-leading-whitespace-of-first-line-lost")
	}
	exp := "22:13:20.123456Z| x [" + tag + "] " + vRightPad(first, mw)
	for _, w := range want {
		exp += " " + w
	}
	if rest != "" {
		exp += "\n"
		for k, line := range strings.Split(rest, "\n") {
			if k > 0 {
				exp += "\n"
			}
			exp += "    " + line
		}
		if eol {
			exp += "\n"
		}
	}
	exp += "\n"
	if len(want) == 2 && want[1] == "g.x=1" {
		// a group contributes its own separator: runs of spaces between attributes are not layout
		head := len("22:13:20.123456Z| x [" + tag + "] " + vRightPad(first, mw))
		if len(plain) > head {
			eolAt := head + strings.IndexByte(plain[head:], '\n')
			if eolAt >= head {
				plain = plain[:head] + strings.ReplaceAll(plain[head:eolAt], "  ", " ") + plain[eolAt:]
			}
		}
	}
	vAssert(plain == exp, "C06: without escapes the record reads timestamp, name, [tag], padded first line, attributes in key order, rest lines indented by four spaces")
}

// strconvQuote is Go-syntax quoting as the library applies to string values.
func strconvQuote(s string) string {
	return string(appendQuotedWith(nil, s, '"', false, false))
}
