package slog

import (
	"errors"
	"time"

	"github.com/hedzr/is/term/color"
)

// C09: history independence. Whatever earlier records did, all they leave
// behind is the content of the pooled PrintCtx. The probe call is therefore
// run twice: once on a freshly constructed PrintCtx and once on a PrintCtx
// whose every field is arbitrary (subject to the representation invariant
// the library's own code maintains); the payloads must be identical and the
// invariant must hold again on the object that goes back to the pool.

func vPCInv(pc *PrintCtx) bool {
	return pc.off == 0 && pc.lastRead == opInvalid && pc.prefix == "" && !pc.inGroupedMode && pc.noQuoted && pc.dedupeAttrs
}

func vHavocPC() *PrintCtx {
	// symbolic scalars do not fork unless the code under test reads them;
	// lengths are fixed so that only the content is arbitrary
	pc := newPrintCtx()
	stale := vStringN(2)
	pc.buf = append(pc.buf[:0], stale...)
	pc.jsonMode = vBool()
	pc.noColor = vBool()
	pc.layout = []string{"", time.Kitchen}[vChoose(2)] // a stale layout (concrete: it is fed to the time formatter)
	pc.utcTime = int(vInt())
	pc.lvl = Level(vInt())
	pc.msg = vStringN(1)
	pc.firstLine = vStringN(1)
	pc.restLines = vStringN(2)
	pc.eol = vBool()
	if vBool() {
		pc.kvps = Attrs{NewAttr("stale", 1)}
	}
	pc.clr = color.Color(vIte(vBool(), int64(color.FgRed), int64(clrBasic)))
	pc.bg = color.Color(vIte(vBool(), int64(color.BgBlink), int64(clrNone)))
	pc.now = time.Unix(vInt()&0xffffff, 0)
	pc.stackFrame = 0
	// stale caller information (concrete: it would be fed to the path-hardening code)
	pc.cachedSource = Source{Function: "stale.Func", File: "/stale/file.go", Line: 777}
	return pc
}

func VH_C09() {
	vProduction()
	const cNoColor = Level(41)
	_ = RegisterLevel(cNoColor, "cnorm") // registered without RegWithColor
	const cOneColor = Level(42)
	_ = RegisterLevel(cOneColor, "cone", RegWithColor(color.FgRed)) // a foreground colour only
	rec := &vRec{}
	lg := New("x").(*logimp).Entry
	lg.SetWriter(&recW{0, rec}).SetErrorWriter(&recW{0, rec}).SetLevel(TraceLevel)
	switch vChoose(3) {
	case 1:
		lg.SetJSONMode(true)
	case 2:
		lg.SetColorMode(false)
	}
	if vBool() {
		lg.SetUTCMode(true)
	}
	sev := []Level{InfoLevel, ErrorLevel, cNoColor, Level(77), cOneColor}[vChoose(5)]
	msg := []string{"m", "m\nn", "m\nn\n"}[vChoose(3)]
	var attrs Attrs
	switch vChoose(vParam("attrkinds", 4)) {
	case 1:
		attrs = Attrs{NewAttr("k", 1)}
	case 2:
		attrs = Attrs{Group("g", "x", 1)}
	case 3:
		attrs = Attrs{NewAttr("e", errors.New("boom")), NewAttr("k", "v")}
	case 4:
		attrs = Attrs{NewAttr("a", 1), NewAttr("time", vTime0())} // the attribute keyed "time" has its own rendering path
	case 5:
		attrs = Attrs{NewAttr("a", 1), NewAttr("z", errors.New("boom"))} // an error as the LAST attribute
	case 6:
		attrs = Attrs{NewAttr("z", vC14MakeErr())} // an error carrying stack information
	}
	if sev == cNoColor || sev == Level(77) {
		// a severity without an entry in the colour table
		vKnown("C09-stale-colour-for-levels-without-colour")
	}
	probe := func(prime *PrintCtx) (string, *PrintCtx) {
		poolPrintCtx.Put(prime)
		n0 := len(rec.evs)
		var as Attrs
		as = append(as, attrs...)
		lg.WriteThru(vCtx, sev, vTime0(), 0, msg, as)
		vAssert(len(rec.evs) == n0+1, "C09: the probe writes one record")
		back := poolPrintCtx.Get().(*PrintCtx)
		return rec.evs[n0].P, back
	}
	p1, _ := probe(newPrintCtx())
	p2, back := probe(vHavocPC())
	vCover("C09:compared")
	vAssert(p1 == p2, "C09: the record's bytes do not depend on what the recycled PrintCtx held")
	vKnown("")
	vAssert(vPCInv(back), "C09: the representation invariant holds on the PrintCtx returned to the pool")
}
