package slog

import (
	"math"
	"errors"
	"strconv"
	"strings"
	"time"
	"unicode/utf8"
)

// C04: in JSON mode each record is one line of valid JSON decoding to what
// was logged.

// vNeedsGoEscape is the input class of the known finding: strings for which
// the Go-syntax escaper produces escapes that are not JSON (\x.. \a \v \U),
// i.e. control characters other than \b \f \n \r \t, DEL, invalid UTF-8 and
// non-printable runes above U+FFFF.
func vNeedsGoEscape(s string) bool {
	for i := 0; i < len(s); {
		c := s[i]
		if c < utf8.RuneSelf {
			if (c < 0x20 && c != '\n' && c != '\r' && c != '\t') || c == 0x7f {
				return true
			}
			i++
			continue
		}
		r, w := utf8.DecodeRuneInString(s[i:])
		if r == utf8.RuneError && w == 1 {
			return true
		}
		if r > 0xFFFF && !strconv.IsPrint(r) {
			return true
		}
		i += w
	}
	return false
}

func vJSONLogger(rec *vRec) *Entry {
	lg := New("x").(*logimp).Entry
	lg.SetWriter(&recW{0, rec}).SetErrorWriter(&recW{0, rec}).SetLevel(TraceLevel).SetJSONMode(true)
	return lg
}

// VH_C04A: the string kernel. Any byte string as message, attribute value
// and attribute key.
func VH_C04A() {
	vProduction()
	flags = LstdFlags &^ Lcaller
	rec := &vRec{}
	lg := vJSONLogger(rec)
	s := vString(vParam("len", 2))
	if vBool() {
		// longer texts with HTML-like markup, entities, leading blanks and CR: data, not markup, outside colored mode
		s = vMarkupTexts[vChoose(len(vMarkupTexts))]
	}
	where := vChoose(3)
	var attrs Attrs
	msg := "m"
	switch where {
	case 0:
		msg = s
	case 1:
		attrs = Attrs{NewAttr("k", s)}
	case 2:
		vAssume(s != "time" && s != "logger" && s != "level" && s != "msg")
		attrs = Attrs{NewAttr(s, 1)}
	}
	sevA := InfoLevel
	if where == 0 {
		// every severity frames its record the same way (blank messages included)
		sevA = []Level{InfoLevel, ErrorLevel, OKLevel, FailLevel, Level(77)}[vChoose(5)]
	}
	lg.WriteThru(vCtx, sevA, vTime0(), 0, msg, attrs)
	vAssert(len(rec.evs) == 1, "C04: one record")
	p := rec.evs[0].P
	if where == 2 {
		vKnown("C04-keys-written-raw")
	} else if vNeedsGoEscape(s) {
		vKnown("C04-go-escapes-in-json-strings")
	}
	vCover("C04A:rendered")
	n := len(p)
	vAssert(n > 0 && p[n-1] == '\n' && strings.Count(p, "\n") == 1, "C04: the record occupies exactly one line")
	doc, ok := vJSONParse(p[:n-1])
	vAssert(ok && doc.kind == 'o', "C04: the line is one syntactically valid JSON object")
	if !ok {
		return
	}
	if !utf8.ValidString(s) {
		return // invalid UTF-8 input: framing only
	}
	switch where {
	case 0:
		v, c := doc.get("msg")
		vAssert(c == 1 && v.kind == 's' && v.str == s, "C04: msg decodes to the message byte for byte")
	case 1:
		v, c := doc.get("k")
		vAssert(c == 1 && v.kind == 's' && v.str == s, "C04: a string value decodes byte for byte")
	case 2:
		v, c := doc.get(s)
		vAssert(c == 1 && v.kind == 'n' && v.str == "1", "C04: the attribute appears under its own key")
	}
}

type vFallback struct {
	A int
	B string
}

// VH_C04B: one record with attributes of every supported kind.
func VH_C04B() {
	vProduction()
	caller := vBool()
	flags = LstdFlags &^ (Lcaller | Lprivacypathregexp)
	if caller {
		flags |= Lcaller
	}
	rec := &vRec{}
	lg := vJSONLogger(rec)
	depth := vParam("depth", 1)
	type want struct {
		key   string
		check func(v vJ) bool
		known string
	}
	var wants []want
	var attrs Attrs
	var mk func(key string, d int) (Attr, want)
	mk = func(key string, d int) (Attr, want) {
		switch vChoose(20) {
		case 0:
			s := vString(1)
			k := ""
			if vNeedsGoEscape(s) {
				k = "C04-go-escapes-in-json-strings"
			}
			return NewAttr(key, s), want{key, func(v vJ) bool { return v.kind == 's' && (v.str == s || !utf8.ValidString(s)) }, k}
		case 1:
			b := vBool()
			return NewAttr(key, b), want{key, func(v vJ) bool { return (v.kind == 't') == b && (v.kind == 't' || v.kind == 'f') }, ""}
		case 2:
			x := []int64{0, -1, 9223372036854775807, -9223372036854775808}[vChoose(4)]
			return NewAttr(key, x), want{key, func(v vJ) bool { return (v.kind == 'n' || v.kind == 's') && v.str == strconv.FormatInt(x, 10) }, ""}
		case 3:
			x := []uint64{0, 18446744073709551615}[vChoose(2)]
			return NewAttr(key, x), want{key, func(v vJ) bool { return (v.kind == 'n' || v.kind == 's') && v.str == strconv.FormatUint(x, 10) }, ""}
		case 4:
			return NewAttr(key, int8(-128)), want{key, func(v vJ) bool { return (v.kind == 'n' || v.kind == 's') && v.str == "-128" }, ""}
		case 5:
			return NewAttr(key, uint16(65535)), want{key, func(v vJ) bool { return (v.kind == 'n' || v.kind == 's') && v.str == "65535" }, ""}
		case 6:
			f := []float64{1.5, float64(float32(0.1)), 1e21, 5e-324, -0.25}[vChoose(5)]
			return NewAttr(key, f), want{key, func(v vJ) bool {
				got, err := strconv.ParseFloat(v.str, 64)
				return (v.kind == 'n' || v.kind == 's') && err == nil && got == f
			}, ""}
		case 7:
			c := []complex128{complex(1, 2), complex(1.5, math.Inf(1)), complex(1.5, math.NaN()), complex(-0.5, -2)}[vChoose(4)]
			return NewAttr(key, c), want{key, func(v vJ) bool {
				got, err := strconv.ParseComplex(v.str, 128)
				same := func(a, b float64) bool { return a == b || (a != a && b != b) }
				return v.kind == 's' && err == nil && same(real(got), real(c)) && same(imag(got), imag(c))
			}, ""}
		case 8:
			d := []time.Duration{1500 * time.Millisecond, 1, 90061000000001, -1500 * time.Millisecond}[vChoose(4)]
			return NewAttr(key, d), want{key, func(v vJ) bool { return vSameDuration(v, d) }, ""}
		case 9:
			t := vTimes()[vChoose(3)]
			return NewAttr(key, t), want{key, func(v vJ) bool { return vSameInstant(v, t) }, ""}
		case 10:
			return NewAttr(key, errors.New("boom")), want{key, func(v vJ) bool {
				if v.kind == 's' {
					return v.str == "boom"
				}
				m, c := v.get("message")
				return v.kind == 'o' && c == 1 && m.str == "boom"
			}, ""}
		case 11:
			return NewAttr(key, vStringerT{"str"}), want{key, func(v vJ) bool { return v.kind == 's' && v.str == "str" }, ""}
		case 12:
			b := []byte(vString(1))
			return NewAttr(key, b), want{key, func(v vJ) bool { return v.kind == 's' }, "C04-byte-slices-written-raw"}
		case 13:
			return NewAttr(key, nil), want{key, func(v vJ) bool { return v.kind == 'z' || v.kind == 's' }, "C04-nil-written-as-bare-word"}
		case 14:
			s := vString(1)
			k := ""
			if vNeedsGoEscape(s) {
				k = "C04-go-escapes-in-json-strings"
			}
			return NewAttr(key, []string{"a", s}), want{key, func(v vJ) bool {
				return v.kind == 'a' && len(v.arr) == 2 && v.arr[0].str == "a" && (v.arr[1].str == s || !utf8.ValidString(s))
			}, k}
		case 15:
			if vBool() {
				return NewAttr(key, []uint64{18446744073709551615, 9223372036854775808, 7}), want{key, func(v vJ) bool {
					return v.kind == 'a' && len(v.arr) == 3 && v.arr[0].str == "18446744073709551615" && v.arr[1].str == "9223372036854775808" && v.arr[2].str == "7"
				}, ""}
			}
			return NewAttr(key, []int{1, -2}), want{key, func(v vJ) bool {
				return v.kind == 'a' && len(v.arr) == 2 && v.arr[0].str == "1" && v.arr[1].str == "-2"
			}, ""}
		case 16:
			return NewAttr(key, []bool{true, false}), want{key, func(v vJ) bool {
				return v.kind == 'a' && len(v.arr) == 2 && v.arr[0].kind == 't' && v.arr[1].kind == 'f'
			}, ""}
		case 17:
			return NewAttr(key, vFallback{1, "x"}), want{key, func(v vJ) bool { return v.kind == 's' || v.kind == 'o' }, ""}
		case 19:
			ts := vTimes()
			if vBool() {
				return NewAttr(key, []time.Time{ts[1], ts[0]}), want{key, func(v vJ) bool {
					return v.kind == 'a' && len(v.arr) == 2 && vSameInstant(v.arr[0], ts[1]) && vSameInstant(v.arr[1], ts[0])
				}, ""}
			}
			return NewAttr(key, []time.Duration{1, 1500 * time.Millisecond}), want{key, func(v vJ) bool {
				return v.kind == 'a' && len(v.arr) == 2 && vSameDuration(v.arr[0], 1) && vSameDuration(v.arr[1], 1500*time.Millisecond)
			}, ""}
		case 18:
			// group, nested to the depth bound, possibly empty
			var members []any
			var mw []want
			if d > 0 {
				for n := vChoose(3); n > 0; n-- {
					a, w := mk([]string{"p", "q"}[n%2], d-1)
					members = append(members, a)
					mw = append(mw, w)
				}
			}
			return Group(key, members...), want{key, func(v vJ) bool {
				if v.kind != 'o' || len(v.keys) != len(mw) {
					return false
				}
				for _, w := range mw {
					x, c := v.get(w.key)
					if c != 1 || !w.check(x) {
						return false
					}
				}
				return true
			}, "C04-groups-without-braces"}
		}
		return nil, want{}
	}
	for n := vChoose(vParam("attrs", 1) + 1); n > 0; n-- {
		a, w := mk([]string{"a", "b"}[n%2], depth)
		attrs = append(attrs, a)
		wants = append(wants, w)
	}
	msg := "m"
	lg.WriteThru(vCtx, WarnLevel, vTime0(), 0, msg, attrs)
	vAssert(len(rec.evs) == 1, "C04: one record")
	p := rec.evs[0].P
	for _, w := range wants {
		if w.known != "" {
			vKnown(w.known)
		}
	}
	vCover("C04B:rendered")
	n := len(p)
	vAssert(n > 0 && p[n-1] == '\n' && strings.Count(p, "\n") == 1, "C04: the record occupies exactly one line")
	doc, ok := vJSONParse(p[:n-1])
	vAssert(ok && doc.kind == 'o', "C04: the line is one syntactically valid JSON object")
	if !ok {
		return
	}
	t, c := doc.get("time")
	vAssert(c == 1 && t.kind == 's', "C04: one time member")
	lgr, c := doc.get("logger")
	vAssert(c == 1 && lgr.str == "x", "C04: the logger name member")
	lv, c := doc.get("level")
	vAssert(c == 1 && lv.str == "warning", "C04: the level member is the level's name")
	m, c := doc.get("msg")
	vAssert(c == 1 && m.str == msg, "C04: the msg member is the message")
	_, c = doc.get("caller")
	vAssert((c == 1) == caller, "C04: the caller member is present iff enabled")
	for _, w := range wants {
		v, c := doc.get(w.key)
		vAssert(c == 1, "C04: one member per attribute key")
		vAssert(w.check(v), "C04: the attribute's value is preserved")
	}
}

// vTimes: instants whose exact value needs all nine fractional digits and a zone offset.
func vTimes() []time.Time {
	return []time.Time{vTime0(), time.Unix(0, 1).UTC(), time.Date(2024, 2, 29, 23, 59, 59, 999999999, time.FixedZone("", 5*3600+1800))}
}

// vSameInstant: the JSON value is a string that parses (RFC 3339) to exactly t.
func vSameInstant(v vJ, t time.Time) bool {
	if v.kind != 's' {
		return false
	}
	got, err := time.Parse(time.RFC3339Nano, v.str)
	return err == nil && got.Equal(t)
}

// vSameDuration: the JSON value is a duration string, or a number of nanoseconds, equal to d.
func vSameDuration(v vJ, d time.Duration) bool {
	if v.kind == 'n' {
		return v.str == strconv.FormatInt(int64(d), 10)
	}
	if v.kind != 's' {
		return false
	}
	got, err := time.ParseDuration(v.str)
	return err == nil && got == d
}

// vMarkupTexts: texts the colored mode's markup translator would rewrite.
var vMarkupTexts = []string{"R&amp;D <b>bold</b> report", "&lt;tag&gt; &amp; co", "  <i>lead</i>\r\nnext", "a < b & c"}
