package slog

import (
	"context"
	"log"
	logslog "log/slog"
	"strings"
	"time"
)

// C15: log/slog handler and std log bridge preserve content, severity and gating.

type vLogValuer struct{ v logslog.Value }

func (l vLogValuer) LogValue() logslog.Value { return l.v }

// vSlogAttr builds one log/slog attribute of a kind chosen by the solver,
// together with the equivalent native attribute.
func vSlogAttr(key string, depth int) (logslog.Attr, Attr) {
	switch vChoose(9) {
	case 0:
		b := vBool()
		return logslog.Bool(key, b), Bool(key, b)
	case 1:
		return logslog.Int64(key, -7), Int64(key, -7)
	case 2:
		return logslog.Uint64(key, 9), Uint64(key, 9)
	case 3:
		return logslog.Float64(key, 1.5), Float64(key, 1.5)
	case 4:
		s := vString(1)
		return logslog.String(key, s), String(key, s)
	case 5:
		return logslog.Duration(key, 1500*time.Millisecond), Duration(key, 1500*time.Millisecond)
	case 6:
		t := vTime0()
		return logslog.Time(key, t), Time(key, t)
	case 7:
		if depth <= 0 {
			return logslog.Group(key), nil // log/slog itself elides empty groups from a Record
		}
		a1, n1 := vSlogAttr("x", depth-1)
		if n1 == nil {
			return logslog.Group(key, a1), nil
		}
		return logslog.Group(key, a1), Group(key, n1)
	case 8:
		return logslog.Any(key, vLogValuer{logslog.Int64Value(5)}), Int64(key, 5)
	}
	return logslog.Attr{}, nil
}

var vStdLevels = []logslog.Level{logslog.LevelDebug, logslog.LevelInfo, logslog.LevelWarn, logslog.LevelError}
var vNamesakes = []Level{DebugLevel, InfoLevel, WarnLevel, ErrorLevel}

// VH_C15A: Enabled answers exactly as the logger's gating for the four
// standard levels (all int64 logger levels).
func VH_C15A() {
	vProduction()
	L := Level(vInt())
	lgi := New("x")
	lgi.SetLevel(L)
	dbg := L == DebugLevel
	h := &handler4LogSlog{lgi}
	k := vChoose(4)
	vCover("C15A:asked")
	vAssert(h.Enabled(context.Background(), vStdLevels[k]) == vSpecEnabled(L, vNamesakes[k], dbg, nil),
		"C15: the handler's Enabled answers as the logger's gating for the namesake severity")
}

// VH_C15B: Handle emits the record once with the same message, time,
// attributes and the namesake severity: byte-identical to writing the same
// record directly.
func VH_C15B() {
	vProduction()
	flags = LstdFlags &^ Lcaller
	rec := &vRec{}
	lgi := New("x")
	lg := lgi.(*logimp).Entry
	lg.SetWriter(&recW{0, rec}).SetErrorWriter(&recW{1, rec}).SetLevel(TraceLevel)
	if vBool() {
		lg.SetJSONMode(true)
	} else {
		lg.SetColorMode(false)
	}
	h := &handler4LogSlog{lgi}
	k := vChoose(4)
	na := vChoose(vParam("attrs", 2) + 1)
	msg := "m"
	if na == 0 {
		msg = vString(vParam("msg", 1)) // message and attributes are independent in the code
	}
	rt := vTime0()
	if vBool() {
		rt = time.Time{} // a record whose own time is the zero instant is still that record's time
	}
	r := logslog.NewRecord(rt, vStdLevels[k], msg, 0)
	var native Attrs
	for n := na; n > 0; n-- {
		a, na := vSlogAttr([]string{"a", "b"}[n%2], vParam("depth", 1))
		r.AddAttrs(a)
		if na != nil {
			native = append(native, na)
		}
	}
	_ = h.Handle(context.Background(), r)
	vAssert(len(rec.evs) == 1, "C15: a handled record is emitted exactly once")
	got := rec.evs[0]
	lg.WriteThru(context.Background(), vNamesakes[k], rt, 0, msg, native)
	vAssert(len(rec.evs) == 2, "C15: reference record written")

	vCover("C15B:compared")
	vAssert(got.W == rec.evs[1].W, "C15: the handled record goes to the destination of the namesake severity")
	vAssert(got.P == rec.evs[1].P, "C15: the handled record has the same time, message, attributes and severity as the native record")
}

// VH_C15C: handlers derived with WithAttrs/WithGroup keep destination,
// format and level and add what was given.
func VH_C15C() {
	vProduction()
	flags = LstdFlags &^ Lcaller
	rec := &vRec{}
	lgi := New("x")
	lg := lgi.(*logimp).Entry
	lg.SetWriter(&recW{0, rec}).SetErrorWriter(&recW{1, rec}).SetLevel(InfoLevel).SetColorMode(false)
	var h logslog.Handler = &handler4LogSlog{lgi}
	derived := h.WithAttrs([]logslog.Attr{logslog.Int64("d", 1)})
	if vBool() {
		derived = derived.WithGroup("g")
	}
	vKnown("C15-derived-handler-is-detached")
	vAssert(derived.Enabled(context.Background(), logslog.LevelDebug) == h.Enabled(context.Background(), logslog.LevelDebug),
		"C15: a derived handler keeps the level")
	r := logslog.NewRecord(vTime0(), logslog.LevelInfo, "m", 0)
	_ = derived.Handle(context.Background(), r)
	vCover("C15C:handled")
	vAssert(len(rec.evs) == 1, "C15: a derived handler keeps the destination")
	if len(rec.evs) == 1 {
		p := rec.evs[0].P
		vAssert(strings.HasPrefix(p, "time="), "C15: a derived handler keeps the format")
		vAssert(strings.Contains(p, "d=1"), "C15: a derived handler adds the given attributes")
	}
	vKnown("")
}

// VH_C15D: the std log bridge emits each message, minus its trailing
// newline, as one record at the bridge's severity exactly when the logger
// admits that severity.
func VH_C15D() {
	vProduction()
	flags = LstdFlags &^ Lcaller
	rec := &vRec{}
	lgi := New("x")
	lg := lgi.(*logimp).Entry
	lg.SetWriter(&recW{0, rec}).SetErrorWriter(&recW{1, rec}).SetColorMode(false)
	levels := []Level{ErrorLevel, WarnLevel, InfoLevel, DebugLevel, TraceLevel, AlwaysLevel, OffLevel}
	L := levels[vChoose(len(levels))]
	b := levels[vChoose(len(levels)-1)] // bridge severity (not Off)
	lg.SetLevel(L)
	dbg := L == DebugLevel
	msg := vString(vParam("msg", 1))
	for i := 0; i < len(msg); i++ {
		vAssume(msg[i] >= 0x20 && msg[i] < 0x7f || msg[i] == '\n')
	}
	vAssume(len(msg) > 0 && msg[0] != '\n' && msg[0] != ' ')
	// plus 0..2 further trailing newlines: std log passes them through, the bridge removes exactly one
	msg += []string{"", "\n", "\n\n"}[vChoose(3)]
	var bridge *log.Logger = NewLogLogger(lgi, b)
	bridge.Print(msg)
	want := vSpecEnabled(L, b, dbg, nil)
	vCover("C15D:printed")
	if want != (b >= L) {
		vKnown("C15-bridge-admission-inverted")
	}
	if !want {
		vAssert(len(rec.evs) == 0, "C15: the bridge emits nothing when the logger does not admit its severity")
		return
	}
	vAssert(len(rec.evs) == 1, "C15: the bridge emits one record when the logger admits its severity")
	if len(rec.evs) != 1 {
		return
	}
	p := rec.evs[0].P
	body := strings.TrimSuffix(msg, "\n")
	vAssert(strings.Contains(p, `level="`+b.String()+`"`), "C15: the bridged record carries the bridge's severity")
	pairs, okp := vLogfmtParse(strings.TrimSuffix(p, "\n"))
	found := false
	for _, pr := range pairs {
		if pr.k == "msg" && !found {
			found = true
			vAssert(pr.v == body, "C15: the bridged message is the text minus its trailing newline")
		}
	}
	vAssert(okp && found, "C15: the bridged record is a well-formed logfmt line with a msg pair")
}

// VH_C15E: wherever a log/slog level is accepted, the four standard levels
// map to their namesakes and only the explicit Fatal/Panic constants map to
// a terminating severity (all int64 level values).
func VH_C15E() {
	vProduction()
	v := logslog.Level(vInt())
	fns := []func(logslog.Level) Level{convertLogSlogLevel, logsloglevel2Level}
	f := vChoose(2)
	got := fns[f](v)
	for k, s := range vStdLevels {
		if v == s {
			vCover("C15E:standard")
			vAssert(got == vNamesakes[k], "C15: a standard log/slog level maps to its namesake")
		}
	}
	if f == 1 {
		vKnown("C15-unlisted-sloglevel-maps-to-fatal")
	}
	if got == PanicLevel || got == FatalLevel {
		vCover("C15E:terminating")
		vAssert(v == LevelPanic || v == LevelFatal, "C15: only the explicit Fatal/Panic constants map to a terminating severity")
	}
	vKnown("")
}

// VH_C15F: trees of derivations. The solver picks, at every step, which
// existing handler to derive from and what to add (one attribute, two
// attributes, a group); afterwards EVERY handler of the tree handles a record
// and must emit exactly the attributes of its own derivation path followed
// by the record's own, at the base logger's destination, format and level -
// byte-identical to the native record with those attributes. Sibling
// derivations must not disturb each other.
func VH_C15F() {
	vProduction()
	flags = LstdFlags &^ Lcaller
	rec := &vRec{}
	lgi := New("x")
	lg := lgi.(*logimp).Entry
	lg.SetWriter(&recW{0, rec}).SetErrorWriter(&recW{1, rec}).SetLevel(InfoLevel)
	if vBool() {
		lg.SetJSONMode(true)
	} else {
		lg.SetColorMode(false)
	}
	hs := []logslog.Handler{&handler4LogSlog{lgi}}
	paths := []Attrs{nil}
	steps := vParam("steps", 5)
	kinds := vParam("kinds", 3)
	for k := 0; k < steps; k++ {
		p := vChoose(len(hs))
		var given Attrs
		var d logslog.Handler
		key := string(rune('a' + k))
		switch vChoose(kinds) {
		case 0:
			d = hs[p].WithAttrs([]logslog.Attr{logslog.Int64(key, int64(k))})
			given = Attrs{Int64(key, int64(k))}
		case 1:
			d = hs[p].WithGroup(key)
			given = Attrs{Group(key)}
		case 2:
			d = hs[p].WithAttrs([]logslog.Attr{logslog.Int64(key, int64(k)), logslog.Bool(key+"2", true)})
			given = Attrs{Int64(key, int64(k)), Bool(key+"2", true)}
		}
		vAssert(d != hs[p], "C15: a derivation returns another handler")
		hs = append(hs, d)
		paths = append(paths, append(append(Attrs(nil), paths[p]...), given...))
	}
	for i, h := range hs {
		vAssert(h.Enabled(context.Background(), logslog.LevelDebug) == hs[0].Enabled(context.Background(), logslog.LevelDebug) &&
			h.Enabled(context.Background(), logslog.LevelInfo) == hs[0].Enabled(context.Background(), logslog.LevelInfo),
			"C15: a derived handler keeps the level")
		r := logslog.NewRecord(vTime0(), logslog.LevelInfo, "m", 0)
		r.AddAttrs(logslog.Int64("r", 1), logslog.Int64("a", 99)) // "a" collides with what the first derivation step bound
		n0 := len(rec.evs)
		_ = h.Handle(context.Background(), r)
		vAssert(len(rec.evs) == n0+1, "C15: a derived handler keeps the destination and emits the record once")
		if len(rec.evs) != n0+1 {
			continue
		}
		got := rec.evs[n0]
		want := append(append(Attrs(nil), paths[i]...), Int64("r", 1), Int64("a", 99)) // the record's own attribute wins over a bound one
		lg.WriteThru(context.Background(), InfoLevel, vTime0(), 0, "m", want)
		ref := rec.evs[len(rec.evs)-1]
		vAssert(got.W == ref.W, "C15: a derived handler keeps the destination")
		vAssert(got.P == ref.P, "C15: a derived handler emits the attributes of its own derivation chain and the record's, in the base format")
	}
	vCover("C15F:compared")
}
