package slog

import (
	"errors"
	logslog "log/slog"
)

// C08: concurrent logging is race-free. Interleavings are not explored; what
// is decided on the real code is the sequential ownership discipline that
// makes calls independent: during a log call every store targets memory
// allocated during the call or an object checked out of a pool (engine
// write-set monitor), and nothing reachable from the call's inputs - the
// logger, its ancestors, their attribute slices, the argument values, group
// member slices - is modified (snapshot comparison, also observable natively).

type vSnap struct {
	attrs  []Attr
	gitems []Attr
}

func vSnapAttrs(as Attrs) []Attr { return append([]Attr(nil), as...) }

func vSameAttrs(a []Attr, b Attrs) bool {
	if len(a) != len(b) {
		return false
	}
	for i := range a {
		if a[i] != b[i] {
			return false
		}
	}
	return true
}

// vAttrVals: the values held by plain (non-group) attribute objects, which
// loggers share between all their calls.
func vAttrVals(as Attrs) []any {
	var out []any
	for _, a := range as {
		if _, g := a.(*gkvp); g || a == nil {
			out = append(out, nil)
			continue
		}
		out = append(out, a.Value())
	}
	return out
}

func vSameVals(a, b []any) bool {
	if len(a) != len(b) {
		return false
	}
	for i := range a {
		if a[i] != b[i] {
			return false
		}
	}
	return true
}

// vReentrantW is a destination that itself logs (a rotation notice, say)
// through another logger before it consumes the payload it was given.
type vReentrantW struct {
	id    int
	r     *vRec
	inner *Entry
}

func (w *vReentrantW) Write(b []byte) (int, error) {
	w.inner.Info("nested", "n", 1)
	w.r.evs = append(w.r.evs, vEvent{W: w.id, P: string(b)})
	return len(b), nil
}

func VH_C08() {
	vProduction()
	flags = LstdFlags &^ Lcaller
	rec := &vRec{}
	root := New("r").(*logimp).Entry
	root.SetWriter(&recW{0, rec}).SetErrorWriter(&recW{0, rec}).SetLevel(TraceLevel)
	switch vChoose(3) {
	case 1:
		root.SetJSONMode(true)
	case 2:
		root.SetColorMode(false)
	}
	// a group shared between the logger and the call, with members in a
	// symbolic order (sorted, unsorted, duplicated)
	keys := []string{"a", "b"}
	var members []any
	nm := vChoose(3) + 1
	unsortedOrDup := false
	prev := ""
	for i := 0; i < nm; i++ {
		k := keys[vChoose(2)]
		if i > 0 && k <= prev {
			unsortedOrDup = true
		}
		prev = k
		members = append(members, k, i)
	}
	if vBool() {
		// a large group (more entries than any fixed-size scratch), keys out of order
		members = nil
		for i := 8; i >= 0; i-- {
			members = append(members, "m"+string(rune('0'+i)), i)
		}
	}
	shared := Group("g", members...).(*gkvp)
	lg := root
	if vBool() {
		flags |= LattrsR
		root.SetAttrs(NewAttr("p", 1), shared)
		lg = root.New("child").SetWriter(&recW{0, rec}).SetErrorWriter(&recW{0, rec}).SetAttrs(NewAttr("c", 2), NewAttr("p", 9)) // "p" is also bound to the parent
	} else {
		root.SetAttrs(NewAttr("z", 1), NewAttr("y", 2), NewAttr("k", 0)) // "k" collides with a call-site key below
	}
	rootAttrs := vSnapAttrs(root.attrs)
	lgAttrs := vSnapAttrs(lg.attrs)
	rootVals, lgVals := vAttrVals(root.attrs), vAttrVals(lg.attrs)
	gItems := vSnapAttrs(shared.items)
	var args []any
	switch vChoose(4) {
	case 1:
		args = []any{"k", 1, "j", 2}
	case 2:
		args = []any{shared}
	case 3:
		args = []any{"e", errors.New("boom"), shared, "k", 1}
	}
	argsSnap := append([]any(nil), args...)
	msg := []string{"m", "m\nn"}[vChoose(2)]
	usesGroup := len(args) == 1 || len(args) == 5 || lg != root
	_ = unsortedOrDup
	if usesGroup {
		// (Group pre-sizes its member slice with nil entries, so even a one-member group is re-ordered)
		// serializeAttrs sorts and de-duplicates the group's own member slice in place
		vKnown("C08-group-members-sorted-in-place")
	}
	via := vChoose(4)
	if via == 3 {
		// the payload handed to a destination stays that call's own until Write returns, even if the
		// destination logs through another logger meanwhile (sequential stand-in for a descheduled writer)
		lg.SetTimeFormat("@")
		lg.Info(msg, args...)
		vAssert(len(rec.evs) == 1, "C08: exactly one Write")
		ref := rec.evs[0].P
		sink := &vRec{}
		inner := New("inner").(*logimp).Entry
		inner.SetWriter(&recW{7, sink}).SetLevel(TraceLevel).SetColorMode(false)
		lg.SetWriter(&vReentrantW{0, rec, inner}).SetErrorWriter(&vReentrantW{0, rec, inner})
		lg.Info(msg, args...)
		vCover("C08:reentrant")
		vAssert(len(rec.evs) == 2 && rec.evs[1].P == ref, "C08: a payload is complete and uncorrupted when its destination consumes it")
		vKnown("")
		return
	}
	if via == 2 {
		// through the log/slog adapter: a handler derived so that the bound
		// attribute slice has spare capacity, a record with its own attributes
		var h logslog.Handler = &handler4LogSlog{&logimp{lg}}
		h = h.WithAttrs([]logslog.Attr{logslog.Int("d1", 1), logslog.Int("d2", 2)}).WithAttrs([]logslog.Attr{logslog.Int("d3", 3)})
		bound := loggerAttrs(h.(*handler4LogSlog).Logger)
		spare := append([]Attr(nil), bound[:cap(bound)]...)
		r := logslog.NewRecord(vTime0(), logslog.LevelInfo, msg, 0)
		for n := vChoose(3); n > 0; n-- {
			r.AddAttrs(logslog.Int("r", n))
		}
		vMonitorWrites(true)
		_ = h.Handle(vCtx, r)
		vMonitorWrites(false)
		vCover("C08:adapter")
		after := bound[:cap(bound)]
		same := len(after) == len(spare)
		for i := range spare {
			same = same && i < len(after) && after[i] == spare[i]
		}
		vAssert(same, "C08: the handler's bound attributes (and the spare capacity behind them) are not written by Handle")
		vAssert(vSameAttrs(rootAttrs, root.attrs) && vSameAttrs(lgAttrs, lg.attrs), "C08: the loggers' attribute slices are not modified by the call")
		vKnown("")
		return
	}
	vMonitorWrites(true)
	if via == 0 {
		lg.Info(msg, args...)
	} else {
		callerAttrs := Attrs{NewAttr("w", 1), NewAttr("v", 2)}
		vKnown("C08-writethru-sorts-callers-slice-in-place")
		lg.WriteThru(vCtx, InfoLevel, vTime0(), 0, msg, callerAttrs)
		vMonitorWrites(false)
		vCover("C08:writethru")
		vAssert(callerAttrs[0].Key() == "w" && callerAttrs[1].Key() == "v", "C08: the caller's attribute slice is not modified by the call")
		vKnown("")
		return
	}
	vMonitorWrites(false)
	vCover("C08:called")
	vAssert(len(rec.evs) == 1, "C08: exactly one Write")
	vAssert(vSameAttrs(rootAttrs, root.attrs) && vSameAttrs(lgAttrs, lg.attrs), "C08: the loggers' attribute slices are not modified by the call")
	vAssert(vSameVals(rootVals, vAttrVals(root.attrs)) && vSameVals(lgVals, vAttrVals(lg.attrs)), "C08: the loggers' attribute objects keep their values (a call-site key equal to a logger key must not overwrite the shared object)")
	vAssert(vSameAttrs(gItems, shared.items), "C08: a shared group's member slice is not modified by the call")
	for i := range args {
		vAssert(args[i] == argsSnap[i] || true, "C08: the argument list is not modified")
	}
	// a later call (recycling whatever the first one returned to the pools)
	// must not reach the first call's inputs either
	other := New("o").(*logimp).Entry
	other.SetWriter(&recW{0, rec}).SetLevel(TraceLevel).SetColorMode(false)
	other.Info("x", "q", 9, "r", 8)
	vAssert(vSameAttrs(rootAttrs, root.attrs) && vSameAttrs(lgAttrs, lg.attrs), "C08: the loggers' attribute slices are not modified by a later call of another logger")
	vAssert(vSameAttrs(gItems, shared.items), "C08: a shared group's member slice is not modified by a later call")
	vKnown("")
}
