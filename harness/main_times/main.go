// Command vreplay re-runs one harness natively on a replay file.
package main

import (
	"fmt"
	"os"

	slog "github.com/hedzr/logg/slog/internal/times"
)

func main() {
	if len(os.Args) < 2 {
		fmt.Println("usage: vreplay <replay.json>")
		os.Exit(2)
	}
	if err := slog.VLoadReplay(os.Args[1]); err != nil {
		fmt.Println("VERR", err)
		os.Exit(2)
	}
	slog.VRun(slog.VReplayHarness())
}
