package times

import "time"

// C20: the duration text helpers are total, invertible and agree with the
// standard parser.

// VH_C20F: for every int64 duration and both styles the formatter returns
// (no index of the fixed 32-byte buffer is out of range), and the package's
// parser turns the text back into exactly the same duration.
func VH_C20F() {
	d := time.Duration(vInt())
	frac := vParam("frac", 0) == 1
	lim := int64(vParam("limit_hours", 0))
	if lim > 0 {
		vAssume(int64(d) < lim*int64(time.Hour) && int64(d) > -lim*int64(time.Hour))
	}
	if vParam("extremes", 0) == 1 {
		// the ends of the int64 range and the neighbourhood of zero
		const k = 1000
		lo := vAnd(int64(d) >= -1<<63, int64(d) <= -1<<63+k)
		hi := vAnd(int64(d) <= 1<<63-1, int64(d) >= 1<<63-1-k)
		mid := vAnd(int64(d) >= -k, int64(d) <= k)
		vAssume(vOr(lo, vOr(hi, mid)))
	}
	s := SmartDurationStringEx(d, frac)
	vCover("C20F:formatted")
	if vParam("roundtrip", 1) == 1 {
		got, err := ParseDuration(s)
		vAssert(err == nil, "C20: the formatted text is accepted by the package's parser")
		vAssert(got == d, "C20: parsing the formatted text gives exactly the same duration")
		vCover("C20F:parsed")
	}
}

// VH_C20P: on every string up to the bound the package's parser and
// time.ParseDuration take the same accept/reject decision and return the same
// value, except that the package's parser additionally understands 'd'.
func VH_C20P() {
	s := vString(vParam("len", 3))
	hasD := false
	for i := 0; i < len(s); i++ {
		hasD = vOr(hasD, s[i] == 'd')
	}
	got, err := ParseDuration(s)
	want, werr := time.ParseDuration(s)
	vCover("C20P:parsed")
	if werr == nil {
		vCover("C20P:std-accepts")
		vAssert(err == nil, "C20: everything time.ParseDuration accepts is accepted")
		vAssert(got == want, "C20: same value as time.ParseDuration")
	} else if err == nil {
		vCover("C20P:only-ours-accepts")
		vAssert(hasD, "C20: accepted although time.ParseDuration rejects and there is no day unit")
	}
}

// VH_C20D: the fraction kernel, differentially. The text is <int>.<k digits><unit>
// with every digit a solver variable; the package's parser and
// time.ParseDuration are both executed on it and must agree exactly. The
// fractional part goes through float64 arithmetic in both: the engine encodes
// it as integer arithmetic where that is provably exact and in the solver's
// IEEE-754 theory otherwise (a rounding difference of one nanosecond between
// two ways of writing the same product is a counterexample here).
func VH_C20D() {
	units := []string{"h", "m", "s", "ms", "us", "ns"}
	u := units[vChoose(len(units))]
	// (the last integer part puts hours next to the int64 overflow boundary: expensive products, thorough tier)
	ip := []string{"0", "", "1", "2562047"}[vChoose(3+vParam("big", 0))]
	k := vChoose(vParam("digits", 9)) + 1
	b := make([]byte, 0, 32)
	b = append(b, ip...)
	b = append(b, '.')
	for i := 0; i < k; i++ {
		// an arbitrary digit, written so that its range is structural (no solver query to classify it)
		b = append(b, '0'+vByte()%10)
	}
	b = append(b, u...)
	s := string(b)
	got, err := ParseDuration(s)
	want, werr := time.ParseDuration(s)
	vCover("C20D:parsed")
	vAssert((err == nil) == (werr == nil), "C20: the same accept/reject decision as time.ParseDuration (fractions)")
	if werr == nil && err == nil {
		vCover("C20D:accepted")
		vAssert(got == want, "C20: same value as time.ParseDuration (fractions)")
	}
}

// VH_C20M: multi-component texts next to the overflow boundary, differentially.
// 1..4 components of <n arbitrary digits>h (optionally a leading sign): the
// running total must be checked after every component, as time.ParseDuration
// does - a wrapped-around sum must not be accepted.
func VH_C20M() {
	parts := vChoose(vParam("parts", 4)) + 1
	nd := vParam("digits", 7)
	b := make([]byte, 0, 64)
	if vBool() {
		b = append(b, '-')
	}
	for p := 0; p < parts; p++ {
		for i := 0; i < nd; i++ {
			b = append(b, '0'+vByte()%10)
		}
		b = append(b, 'h')
	}
	s := string(b)
	got, err := ParseDuration(s)
	want, werr := time.ParseDuration(s)
	vCover("C20M:parsed")
	vAssert((err == nil) == (werr == nil), "C20: the same accept/reject decision as time.ParseDuration (several components)")
	if werr == nil && err == nil {
		vCover("C20M:accepted")
		vAssert(got == want, "C20: same value as time.ParseDuration (several components)")
	}
}
