package times

var vHarnesses = map[string]func(){
	"VH_C20F": VH_C20F,
	"VH_C20P": VH_C20P,
	"VH_C20D": VH_C20D,
	"VH_C20M": VH_C20M,
}
